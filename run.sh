#!/usr/bin/env bash
# usage: run.sh <Cxx> [quick|thorough]
# Rebuilds the harness (and /repo's crate with the verif-hooks feature) from /repo's current
# working tree in two optimised profiles, then runs the driver.  exit 0 held / 1 violation / 2 inconclusive.
set -u
PROP="$1"; TIER="${2:-${VERIF_TIER:-quick}}"
HERE="$(cd "$(dirname "$0")" && pwd)"
export VERIF_ROOT="$HERE"
export CARGO_NET_OFFLINE=true
cd "$HERE/harness" || exit 2
build() {
  cargo build --offline --profile "$1" --bin dvcheck >"$HERE/harness/target/build-$1.log" 2>&1
}
mkdir -p "$HERE/harness/target"
# development aid: the build reads /repo's working tree; hold a shared lock on it meanwhile so that
# tools/with_seed.sh (which applies a seeded patch to /repo under the exclusive lock, runs a check
# and reverts) can never interleave with the build of another, concurrently running check
if [ -z "${DVCHECK_REPO_LOCK_HELD:-}" ]; then exec 8>"${TMPDIR:-/tmp}/dvcheck-repo.lock"; flock -s 8; fi
# serialise concurrent builds of different checks
exec 9>"$HERE/harness/target/.build.lock"
flock 9
build release || { tail -30 "$HERE/harness/target/build-release.log"; echo "BUILD-FAILED profile=release"; exit 2; }
build relchk  || { tail -30 "$HERE/harness/target/build-relchk.log";  echo "BUILD-FAILED profile=relchk";  exit 2; }
flock -u 9
if [ -z "${DVCHECK_REPO_LOCK_HELD:-}" ]; then flock -u 8; fi
export DVCHECK_BINS="release=$HERE/harness/target/release/dvcheck,relchk=$HERE/harness/target/relchk/dvcheck"
if [ "$TIER" != thorough ] || [ -n "${DVCHECK_NO_FUZZ:-}" ]; then
  exec "$HERE/harness/target/release/dvcheck" run "$PROP" --tier "$TIER"
fi
# thorough tier = the generated-case campaign, then (for the properties that have a byte decoder) a
# coverage-guided libFuzzer campaign over the same case types and oracles
"$HERE/harness/target/release/dvcheck" run "$PROP" --tier "$TIER"; c1=$?
"$HERE/tools/fuzz_stage.sh" "$PROP"; c2=$?
if [ $c1 -eq 1 ] || [ $c2 -eq 1 ]; then exit 1; fi
if [ $c1 -ne 0 ]; then exit $c1; fi
exit $c2
