//! Exact geometric predicates on points with finite f64 coordinates.
//!
//! Sign conventions (chosen to coincide with the library's documented matrices so that the
//! tolerance band can be evaluated on the very same determinant):
//!   orient(p0..pD)      = sign det [ p_i , 1 ]                      ((D+1)x(D+1))
//!   insphere(p0..pD; q) = sign( det [ p_i, |p_i|^2, 1 ; q, |q|^2, 1 ] * orient )   > 0 <=> q strictly inside
//! Both are evaluated on translated integer coordinates (no rounding anywhere).

use super::bigint::{BigInt, Rat};
use super::det::{det_i128_small, det_int};

/// A point set scaled to integers with a common binary exponent (real = int * 2^exp).
#[derive(Clone, Debug)]
pub struct ScaledPoints {
    pub dim: usize,
    pub exp: i32,
    pub big: Vec<Vec<BigInt>>,
    pub small: Option<Vec<Vec<i128>>>,
}

impl ScaledPoints {
    pub fn new(pts: &[Vec<f64>]) -> Self {
        let dim = pts.first().map_or(0, |p| p.len());
        let mut emin = i32::MAX;
        let mut dec: Vec<Vec<(i64, i32)>> = Vec::with_capacity(pts.len());
        for p in pts {
            assert_eq!(p.len(), dim);
            let row: Vec<(i64, i32)> = p.iter().map(|&x| BigInt::decompose_f64(x)).collect();
            for &(m, e) in &row {
                if m != 0 {
                    emin = emin.min(e);
                }
            }
            dec.push(row);
        }
        if emin == i32::MAX {
            emin = 0;
        }
        let big: Vec<Vec<BigInt>> = dec
            .iter()
            .map(|row| {
                row.iter()
                    .map(|&(m, e)| if m == 0 { BigInt::zero() } else { BigInt::from_i64(m).shl((e - emin) as u32) })
                    .collect()
            })
            .collect();
        let mut small = Some(Vec::with_capacity(big.len()));
        'outer: for row in &big {
            let mut r = Vec::with_capacity(dim);
            for x in row {
                if x.bit_length() > 40 {
                    small = None;
                    break 'outer;
                }
                r.push(x.to_i128().unwrap());
            }
            small.as_mut().unwrap().push(r);
        }
        ScaledPoints { dim, exp: emin, big, small }
    }

    pub fn len(&self) -> usize {
        self.big.len()
    }

    /// sign det [p_i, 1] for the D+1 points with the given indices.
    pub fn orient(&self, idx: &[usize]) -> i32 {
        self.orient_det(idx).signum()
    }

    /// det [p_i - p_0]_{i=1..D} * (-1)^D  (== det [p_i,1]) in integer units.
    pub fn orient_det(&self, idx: &[usize]) -> BigInt {
        let d = self.dim;
        assert_eq!(idx.len(), d + 1);
        let det = if let Some(s) = &self.small {
            let mut a = Vec::with_capacity(d * d);
            for i in 1..=d {
                for j in 0..d {
                    a.push(s[idx[i]][j] - s[idx[0]][j]);
                }
            }
            det_i128_small(d, &a)
        } else {
            let mut a = Vec::with_capacity(d * d);
            for i in 1..=d {
                for j in 0..d {
                    a.push(self.big[idx[i]][j].sub(&self.big[idx[0]][j]));
                }
            }
            det_int(d, &a)
        };
        if d % 2 == 1 {
            det.neg()
        } else {
            det
        }
    }

    /// det [p_i - q, |p_i - q|^2]_{i=0..D}  (== the (D+2)x(D+2) lifted determinant with q last).
    pub fn lifted_det(&self, idx: &[usize], q: usize) -> BigInt {
        let d = self.dim;
        assert_eq!(idx.len(), d + 1);
        let n = d + 1;
        if let Some(s) = &self.small {
            let mut a = Vec::with_capacity(n * n);
            for &i in idx {
                let mut nn: i128 = 0;
                for j in 0..d {
                    let v = s[i][j] - s[q][j];
                    a.push(v);
                    nn += v * v;
                }
                a.push(nn);
            }
            det_i128_small(n, &a)
        } else {
            let mut a = Vec::with_capacity(n * n);
            for &i in idx {
                let mut nn = BigInt::zero();
                for j in 0..d {
                    let v = self.big[i][j].sub(&self.big[q][j]);
                    nn = nn.add(&v.mul(&v));
                    a.push(v);
                }
                a.push(nn);
            }
            det_int(n, &a)
        }
    }

    /// > 0 iff q strictly inside the circumsphere of the simplex; None if the simplex is degenerate.
    pub fn insphere(&self, idx: &[usize], q: usize) -> Option<i32> {
        let o = self.orient(idx);
        if o == 0 {
            return None;
        }
        Some(self.lifted_det(idx, q).signum() * o)
    }

    /// q in the closed simplex?  None if the simplex is degenerate.
    pub fn in_closed_simplex(&self, idx: &[usize], q: usize) -> Option<bool> {
        let o = self.orient(idx);
        if o == 0 {
            return None;
        }
        let mut tmp = idx.to_vec();
        for i in 0..idx.len() {
            tmp[i] = q;
            let s = self.orient(&tmp);
            tmp[i] = idx[i];
            if s * o < 0 {
                return Some(false);
            }
        }
        Some(true)
    }

    /// Sign per facet: orientation of the simplex with vertex i replaced by q, relative to the
    /// simplex orientation (+1 same side as vertex i, 0 on the facet hyperplane, -1 beyond).
    pub fn barycentric_signs(&self, idx: &[usize], q: usize) -> Option<Vec<i32>> {
        let o = self.orient(idx);
        if o == 0 {
            return None;
        }
        let mut tmp = idx.to_vec();
        let mut out = Vec::with_capacity(idx.len());
        for i in 0..idx.len() {
            tmp[i] = q;
            out.push(self.orient(&tmp) * o);
            tmp[i] = idx[i];
        }
        Some(out)
    }

    /// Side of q relative to the hyperplane through the D facet points, as sign det[f_1..f_D, q ; 1].
    pub fn side(&self, facet: &[usize], q: usize) -> i32 {
        let mut idx = facet.to_vec();
        idx.push(q);
        self.orient(&idx)
    }

    /// exact squared distance (integer units) between two points
    pub fn dist2(&self, a: usize, b: usize) -> BigInt {
        let mut acc = BigInt::zero();
        for j in 0..self.dim {
            let v = self.big[a][j].sub(&self.big[b][j]);
            acc = acc.add(&v.mul(&v));
        }
        acc
    }

    /// exact squared distance as a rational in real units
    pub fn dist2_real(&self, a: usize, b: usize) -> Rat {
        let d = self.dist2(a, b);
        scale_pow2(Rat::from_int(d), 2 * self.exp as i64)
    }
}

pub fn scale_pow2(r: Rat, e: i64) -> Rat {
    if e >= 0 {
        Rat { n: r.n.shl(e as u32), d: r.d }
    } else {
        Rat { n: r.n, d: r.d.shl((-e) as u32) }
    }
}

/// Iterate over all k-subsets of 0..n (lexicographic), calling f; stops early if f returns false.
pub fn for_each_subset(n: usize, k: usize, mut f: impl FnMut(&[usize]) -> bool) {
    if k > n {
        return;
    }
    let mut idx: Vec<usize> = (0..k).collect();
    loop {
        if !f(&idx) {
            return;
        }
        // advance
        let mut i = k;
        loop {
            if i == 0 {
                return;
            }
            i -= 1;
            if idx[i] != i + n - k {
                break;
            }
            if i == 0 {
                return;
            }
        }
        idx[i] += 1;
        for j in i + 1..k {
            idx[j] = idx[j - 1] + 1;
        }
    }
}

pub fn binom(n: usize, k: usize) -> u64 {
    if k > n {
        return 0;
    }
    let mut r: u64 = 1;
    for i in 0..k {
        r = r * (n - i) as u64 / (i + 1) as u64;
    }
    r
}

/// General position in the Delaunay sense: no D+1 points on a hyperplane, no D+2 on a sphere.
pub fn general_position(sp: &ScaledPoints) -> bool {
    let n = sp.len();
    let d = sp.dim;
    let mut ok = true;
    for_each_subset(n, d + 1, |s| {
        if sp.orient(s) == 0 {
            ok = false;
        }
        ok
    });
    if !ok {
        return false;
    }
    for_each_subset(n, d + 2, |s| {
        if sp.lifted_det(&s[..d + 1], s[d + 1]).is_zero() {
            ok = false;
        }
        ok
    });
    ok
}

/// Brute-force reference Delaunay triangulation: all non-degenerate (D+1)-subsets whose open
/// circumball contains no point.  Returns sorted index tuples.  Unique iff general position.
pub fn reference_dt(sp: &ScaledPoints) -> Vec<Vec<usize>> {
    let n = sp.len();
    let d = sp.dim;
    let mut out = Vec::new();
    for_each_subset(n, d + 1, |s| {
        let o = sp.orient(s);
        if o != 0 {
            let mut empty = true;
            for q in 0..n {
                if s.contains(&q) {
                    continue;
                }
                if sp.lifted_det(s, q).signum() * o > 0 {
                    empty = false;
                    break;
                }
            }
            if empty {
                out.push(s.to_vec());
            }
        }
        true
    });
    out
}

/// Is q strictly outside the convex hull of the points `set` (all in sp)?  Decided by brute force:
/// exists a hyperplane through D affinely independent points of `set` with all of `set` on one
/// closed side and q strictly on the other.  Also returns whether q is strictly inside
/// (not on any supporting hyperplane and not outside).  Requires a full-dimensional set.
#[derive(Clone, Copy, Debug, PartialEq, Eq)]
pub enum HullSide {
    StrictlyInside,
    OnBoundary,
    StrictlyOutside,
}

pub fn hull_side(sp: &ScaledPoints, set: &[usize], q: usize) -> HullSide {
    let d = sp.dim;
    let mut outside = false;
    let mut on_boundary = false;
    let mut supporting_found = false;
    for_each_subset(set.len(), d, |s| {
        let facet: Vec<usize> = s.iter().map(|&i| set[i]).collect();
        // supporting?
        let mut pos = false;
        let mut neg = false;
        for &v in set {
            let sd = sp.side(&facet, v);
            if sd > 0 {
                pos = true;
            } else if sd < 0 {
                neg = true;
            }
            if pos && neg {
                break;
            }
        }
        if pos && neg {
            return true; // not supporting
        }
        if !pos && !neg {
            return true; // degenerate facet (points not affinely independent) or flat set
        }
        supporting_found = true;
        let sq = sp.side(&facet, q);
        if sq == 0 {
            on_boundary = true;
        } else if (pos && sq < 0) || (neg && sq > 0) {
            outside = true;
            return false;
        }
        true
    });
    if outside {
        HullSide::StrictlyOutside
    } else if on_boundary || !supporting_found {
        // a flat point set has no supporting hyperplane spanned by D of its points: undecided
        HullSide::OnBoundary
    } else {
        HullSide::StrictlyInside
    }
}

/// Exact circumcentre and squared circumradius (real units) of a non-degenerate simplex.
pub fn circumsphere(sp: &ScaledPoints, idx: &[usize]) -> Option<(Vec<Rat>, Rat)> {
    let d = sp.dim;
    assert_eq!(idx.len(), d + 1);
    // Solve 2 (P_i - P_0) . x = |P_i - P_0|^2  for x = c - P_0 (integer units), Cramer.
    let mut a: Vec<BigInt> = Vec::with_capacity(d * d);
    let mut b: Vec<BigInt> = Vec::with_capacity(d);
    for i in 1..=d {
        let mut nn = BigInt::zero();
        for j in 0..d {
            let v = sp.big[idx[i]][j].sub(&sp.big[idx[0]][j]);
            nn = nn.add(&v.mul(&v));
            a.push(v.shl(1));
        }
        b.push(nn);
    }
    let den = det_int(d, &a);
    if den.is_zero() {
        return None;
    }
    let mut x: Vec<Rat> = Vec::with_capacity(d);
    for j in 0..d {
        let mut aj = a.clone();
        for i in 0..d {
            aj[i * d + j] = b[i].clone();
        }
        x.push(Rat::new(det_int(d, &aj), den.clone()));
    }
    let mut r2 = Rat::from_int(BigInt::zero());
    for xj in &x {
        r2 = r2.add(&xj.mul(xj));
    }
    let c: Vec<Rat> = (0..d)
        .map(|j| scale_pow2(x[j].add(&Rat::from_int(sp.big[idx[0]][j].clone())), sp.exp as i64))
        .collect();
    Some((c, scale_pow2(r2, 2 * sp.exp as i64)))
}

#[cfg(test)]
mod tests {
    use super::*;
    #[test]
    fn conventions_2d() {
        let pts = vec![vec![0.0, 0.0], vec![1.0, 0.0], vec![0.0, 1.0], vec![0.25, 0.25], vec![2.0, 2.0], vec![1.0, 1.0]];
        let sp = ScaledPoints::new(&pts);
        assert_eq!(sp.orient(&[0, 1, 2]), 1); // CCW
        assert_eq!(sp.orient(&[0, 2, 1]), -1);
        assert_eq!(sp.insphere(&[0, 1, 2], 3), Some(1));
        assert_eq!(sp.insphere(&[0, 2, 1], 3), Some(1));
        assert_eq!(sp.insphere(&[0, 1, 2], 4), Some(-1));
        assert_eq!(sp.insphere(&[0, 1, 2], 5), Some(0));
        assert_eq!(sp.in_closed_simplex(&[0, 1, 2], 3), Some(true));
        assert_eq!(sp.in_closed_simplex(&[0, 1, 2], 5), Some(false));
    }
    #[test]
    fn insphere_agrees_with_circumcentre_all_dims() {
        // deterministic pseudo-random dyadic points; compare lifted-determinant sign with the
        // independent rational circumcentre distance comparison
        let mut s: u64 = 0x1234_5678_9abc_def1;
        let mut next = || {
            s ^= s << 13;
            s ^= s >> 7;
            s ^= s << 17;
            ((s >> 20) % 257) as f64 / 8.0 - 16.0
        };
        for d in 1..=5usize {
            for _ in 0..60 {
                let pts: Vec<Vec<f64>> = (0..d + 2).map(|_| (0..d).map(|_| next()).collect()).collect();
                let sp = ScaledPoints::new(&pts);
                let idx: Vec<usize> = (0..=d).collect();
                let Some((c, r2)) = circumsphere(&sp, &idx) else { continue };
                // |q-c|^2 vs r2
                let mut dq = Rat::from_int(BigInt::zero());
                for j in 0..d {
                    let t = Rat::from_f64(pts[d + 1][j]).sub(&c[j]);
                    dq = dq.add(&t.mul(&t));
                }
                let expect = match dq.cmp(&r2) {
                    std::cmp::Ordering::Less => 1,
                    std::cmp::Ordering::Equal => 0,
                    std::cmp::Ordering::Greater => -1,
                };
                assert_eq!(sp.insphere(&idx, d + 1), Some(expect), "d={d} pts={pts:?}");
                // every simplex vertex is on the sphere
                for i in 0..=d {
                    assert_eq!(sp.insphere(&idx, i), Some(0));
                }
            }
        }
    }
    #[test]
    fn reference_dt_square_and_gp() {
        let pts = vec![vec![0.0, 0.0], vec![1.0, 0.0], vec![0.0, 1.0], vec![1.0, 1.0]];
        let sp = ScaledPoints::new(&pts);
        assert!(!general_position(&sp));
        assert_eq!(reference_dt(&sp).len(), 4); // all four triangles are (weakly) Delaunay
        let pts = vec![vec![0.0, 0.0], vec![1.0, 0.0], vec![0.0, 1.0], vec![1.5, 1.25]];
        let sp = ScaledPoints::new(&pts);
        assert!(general_position(&sp));
        assert_eq!(reference_dt(&sp).len(), 2);
        assert_eq!(hull_side(&sp, &[0, 1, 2], 3), HullSide::StrictlyOutside);
        let pts = vec![vec![0.0, 0.0], vec![4.0, 0.0], vec![0.0, 4.0], vec![1.0, 1.0], vec![2.0, 0.0]];
        let sp = ScaledPoints::new(&pts);
        assert_eq!(hull_side(&sp, &[0, 1, 2], 3), HullSide::StrictlyInside);
        assert_eq!(hull_side(&sp, &[0, 1, 2], 4), HullSide::OnBoundary);
    }
    #[test]
    fn subsets_count() {
        let mut c = 0;
        for_each_subset(7, 3, |_| {
            c += 1;
            true
        });
        assert_eq!(c, 35);
        assert_eq!(binom(14, 6), 3003);
    }
}

#[cfg(test)]
mod bigtests {
    use super::*;
    #[test]
    fn big_coordinates_consistency() {
        // simplex with huge coordinates and a sample with a tiny coordinate: hull_side and
        // in_closed_simplex must agree for a single simplex
        let s = 17592186044416.0f64;
        let pts = vec![
            vec![1.0 * s, 1.0 * s, 0.0, 0.0, 4.0 * s],
            vec![2.0 * s, 3.0 * s, 2.0 * s, 2.0 * s, 3.0 * s],
            vec![2.0 * s, 4.0 * s, 4.0 * s, 2.0 * s, 4.0 * s],
            vec![3.0 * s, 4.0 * s, 3.0 * s, 1.0 * s, 2.0 * s],
            vec![4.0 * s, 0.0, 0.0, 2.0 * s, 3.0 * s],
            vec![3.0 * s, 1.0 * s, 1.0 * s, 4.0 * s, 4.0 * s],
            vec![43980465111040.0, 26388279066624.0, 0.0003255208333333333, 17592186044416.0, 70368744177664.0],
        ];
        let sp = ScaledPoints::new(&pts);
        let idx: Vec<usize> = (0..6).collect();
        let inside = sp.in_closed_simplex(&idx, 6);
        let hs = hull_side(&sp, &idx, 6);
        println!("{inside:?} {hs:?} {:?}", sp.barycentric_signs(&idx, 6));
        // translation invariance of orientation with small integer version
        let small: Vec<Vec<f64>> = pts[..6].iter().map(|p| p.iter().map(|x| x / s).collect()).collect();
        let sps = ScaledPoints::new(&small);
        assert_eq!(sps.orient(&idx), sp.orient(&idx));
        assert_eq!(inside == Some(true), hs != HullSide::StrictlyOutside);
    }
}

#[cfg(test)]
mod bigtests2 {
    use super::*;
    #[test]
    fn orient_invariant_under_extra_point() {
        let pts = vec![
            vec![17592186044416.0, 17592186044416.0, 0.0, 0.0, 70368744177664.0],
            vec![17592186044416.0, 52776558133248.0, 52776558133248.0, 52776558133248.0, 52776558133248.0],
            vec![52776558133248.0, 35184372088832.0, 0.0, 0.0, 70368744177664.0],
            vec![70368744177664.0, 35184372088832.0, 0.0, 35184372088832.0, 70368744177664.0],
            vec![35184372088832.0, 52776558133248.0, 35184372088832.0, 35184372088832.0, 52776558133248.0],
            vec![35184372088832.0, 70368744177664.0, 70368744177664.0, 35184372088832.0, 70368744177664.0],
        ];
        let a = ScaledPoints::new(&pts);
        let mut more = pts.clone();
        more.push(vec![43980465111040.0, 26388279066624.0, 0.0003255208333333333, 17592186044416.0, 70368744177664.0]);
        let b = ScaledPoints::new(&more);
        let idx = [1usize, 0, 2, 3, 4, 5];
        println!("a.exp={} b.exp={} small a {:?} b {:?}", a.exp, b.exp, a.small.is_some(), b.small.is_some());
        let da = a.orient_det(&idx);
        let db = b.orient_det(&idx);
        println!("da bits {} sign {} ; db bits {} sign {}", da.bit_length(), da.signum(), db.bit_length(), db.signum());
        assert_eq!(da.signum(), db.signum());
    }
}

/// det of the k x k Gram matrix of the edge vectors p_i - p_0 (i = 1..k) of k+1 points, as an
/// exact rational in real units.  (k-dimensional measure)^2 = gram / (k!)^2.
pub fn gram_det(sp: &ScaledPoints, idx: &[usize]) -> Rat {
    let k = idx.len() - 1;
    if k == 0 {
        return Rat::from_int(BigInt::one());
    }
    let d = sp.dim;
    let e: Vec<Vec<BigInt>> = (1..=k).map(|i| (0..d).map(|j| sp.big[idx[i]][j].sub(&sp.big[idx[0]][j])).collect()).collect();
    let mut g = Vec::with_capacity(k * k);
    for a in 0..k {
        for b in 0..k {
            let mut acc = BigInt::zero();
            for j in 0..d {
                acc = acc.add(&e[a][j].mul(&e[b][j]));
            }
            g.push(acc);
        }
    }
    scale_pow2(Rat::from_int(det_int(k, &g)), 2 * (sp.exp as i64) * (k as i64))
}

pub fn factorial(n: usize) -> f64 {
    (1..=n).map(|x| x as f64).product()
}
