pub mod band;
pub mod bigint;
pub mod det;
pub mod geom;
