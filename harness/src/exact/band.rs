//! The library's documented tolerance band, evaluated on the same matrices the predicates build.
//!
//! tol(A) = base + 1e-12 * max_i sum_j |a_ij|   (last column excluded when it is all ones)
//! (`geometry/matrix.rs::adaptive_tolerance`).  The determinant is computed by LU with partial
//! pivoting and fused multiply-adds (la-stack 0.1.3).  We bound its rounding error a posteriori by
//! the standard backward-error result |ΔA| <= γ_n |L̂||Û| (Higham, Thm 9.3, valid for any ordering
//! of the inner products) propagated to the determinant through the exact cofactors, doubled for
//! the second-order terms, plus the n roundings of the final product.

use super::det::{scale_entries, DetVal};

#[derive(Clone, Copy, Debug, PartialEq, Eq)]
pub enum Decision {
    /// exact determinant non-zero and farther from zero than tol + rounding bound
    Sign(i32),
    /// exact determinant zero and rounding bound below tol: predicate must answer "degenerate"
    Zero,
    /// anything else: no answer is demanded
    InBand,
}

#[derive(Clone, Debug)]
pub struct Band {
    pub det: DetVal,
    pub tol: f64,
    pub bound: f64,
    pub decision: Decision,
}

pub fn adaptive_tolerance(rows: &[Vec<f64>], base: f64) -> f64 {
    let n = rows.len();
    if n == 0 {
        return base;
    }
    let last_ones = rows.iter().all(|r| (r[n - 1] - 1.0).abs() <= f64::EPSILON);
    let lim = if last_ones { n - 1 } else { n };
    let mut m = 0.0f64;
    for r in rows {
        let s: f64 = r[..lim].iter().map(|x| x.abs()).sum();
        if s > m {
            m = s;
        }
    }
    1e-12f64.mul_add(m, base)
}

/// |L̂||Û| of Gaussian elimination with partial pivoting in f64 (rows permuted back to the
/// original order).  Returns None if a non-finite value or an exactly zero pivot appears.
fn abs_lu_product(rows: &[Vec<f64>]) -> Option<Vec<Vec<f64>>> {
    let n = rows.len();
    let mut lu: Vec<Vec<f64>> = rows.to_vec();
    let mut piv: Vec<usize> = (0..n).collect();
    for k in 0..n {
        let mut pr = k;
        let mut pa = lu[k][k].abs();
        for r in k + 1..n {
            let v = lu[r][k].abs();
            if v > pa {
                pa = v;
                pr = r;
            }
        }
        if !pa.is_finite() {
            return None;
        }
        if pa == 0.0 {
            // singular in floating point: remaining block contributes nothing more to |L||U| here
            continue;
        }
        if pr != k {
            lu.swap(k, pr);
            piv.swap(k, pr);
        }
        let p = lu[k][k];
        for r in k + 1..n {
            let m = lu[r][k] / p;
            if !m.is_finite() {
                return None;
            }
            lu[r][k] = m;
            for c in k + 1..n {
                lu[r][c] = (-m).mul_add(lu[k][c], lu[r][c]);
            }
        }
    }
    // |L||U| in permuted order
    let mut prod = vec![vec![0.0f64; n]; n];
    for i in 0..n {
        for j in 0..n {
            let mut s = 0.0;
            for k in 0..=i.min(j) {
                let l = if k == i { 1.0 } else { lu[i][k].abs() };
                s += l * lu[k][j].abs();
            }
            prod[piv[i]][j] = s;
        }
    }
    Some(prod)
}

pub fn analyze(rows: &[Vec<f64>], base_tol: f64) -> Band {
    let n = rows.len();
    let sm = scale_entries(rows);
    let det = sm.det();
    let tol = adaptive_tolerance(rows, base_tol);
    let u = f64::EPSILON / 2.0;
    let nf = n as f64;
    let gamma = nf * u / (1.0 - nf * u);
    let bound = match abs_lu_product(rows) {
        None => f64::INFINITY,
        Some(prod) => {
            let cof = sm.abs_cofactors();
            let mut s = 0.0f64;
            for i in 0..n {
                for j in 0..n {
                    // also allow for the entry itself when |L||U| underestimates (fl. singular case)
                    let p = prod[i][j].max(rows[i][j].abs());
                    s += cof[i * n + j] * p;
                }
            }
            let first = 2.0 * gamma * s;
            first + 2.0 * nf * u * (det.abs_approx() + first)
        }
    };
    let d = det.abs_approx();
    let decision = if !bound.is_finite() || !tol.is_finite() {
        Decision::InBand
    } else if det.sign != 0 && d > (tol + bound) * (1.0 + 1e-9) {
        Decision::Sign(det.sign)
    } else if det.sign == 0 && bound < tol * (1.0 - 1e-9) {
        Decision::Zero
    } else {
        Decision::InBand
    };
    Band { det, tol, bound, decision }
}

/// The (D+1)x(D+1) orientation matrix [p_i, 1] exactly as `simplex_orientation`/`robust_orientation` build it.
pub fn orientation_matrix(pts: &[Vec<f64>]) -> Vec<Vec<f64>> {
    pts.iter()
        .map(|p| {
            let mut r = p.clone();
            r.push(1.0);
            r
        })
        .collect()
}

fn sqnorm(p: &[f64]) -> f64 {
    p.iter().fold(0.0, |acc, &x| acc + x * x)
}

/// The (D+2)x(D+2) matrix of `insphere` / `robust_insphere`: rows [p, |p|^2, 1], test point last.
/// `exact_entries` is false when a squared norm is not exactly representable (then the f64 matrix
/// differs from the geometric one and no answer is demanded).
pub fn insphere_matrix(simplex: &[Vec<f64>], q: &[f64]) -> (Vec<Vec<f64>>, bool) {
    let mut exact = true;
    let mut rows = Vec::with_capacity(simplex.len() + 1);
    for p in simplex.iter().map(|v| v.as_slice()).chain(std::iter::once(q)) {
        let nn = sqnorm(p);
        if !sqnorm_is_exact(p, nn) {
            exact = false;
        }
        let mut r = p.to_vec();
        r.push(nn);
        r.push(1.0);
        rows.push(r);
    }
    (rows, exact)
}

/// The (D+1)x(D+1) matrix of `insphere_lifted`: rows [p_i - p_0, |p_i - p_0|^2] for i=1..D, then q.
pub fn lifted_matrix(simplex: &[Vec<f64>], q: &[f64]) -> (Vec<Vec<f64>>, bool) {
    let mut exact = true;
    let p0 = &simplex[0];
    let mut rows = Vec::with_capacity(simplex.len());
    for p in simplex[1..].iter().map(|v| v.as_slice()).chain(std::iter::once(q)) {
        let rel: Vec<f64> = p.iter().zip(p0.iter()).map(|(a, b)| a - b).collect();
        for ((a, b), r) in p.iter().zip(p0.iter()).zip(rel.iter()) {
            if !diff_is_exact(*a, *b, *r) {
                exact = false;
            }
        }
        let nn = sqnorm(&rel);
        if !sqnorm_is_exact(&rel, nn) {
            exact = false;
        }
        let mut r = rel;
        r.push(nn);
        rows.push(r);
    }
    (rows, exact)
}

fn diff_is_exact(a: f64, b: f64, r: f64) -> bool {
    use super::bigint::Rat;
    if !r.is_finite() {
        return false;
    }
    Rat::from_f64(a).sub(&Rat::from_f64(b)).cmp(&Rat::from_f64(r)) == std::cmp::Ordering::Equal
}

fn sqnorm_is_exact(p: &[f64], nn: f64) -> bool {
    use super::bigint::{BigInt, Rat};
    if !nn.is_finite() {
        return false;
    }
    let mut acc = Rat::from_int(BigInt::zero());
    for &x in p {
        let r = Rat::from_f64(x);
        acc = acc.add(&r.mul(&r));
    }
    acc.cmp(&Rat::from_f64(nn)) == std::cmp::Ordering::Equal
}

#[cfg(test)]
mod tests {
    use super::*;
    #[test]
    fn unit_triangle_band() {
        let pts = vec![vec![0.0, 0.0], vec![1.0, 0.0], vec![0.0, 1.0]];
        let b = analyze(&orientation_matrix(&pts), 1e-15);
        assert_eq!(b.decision, Decision::Sign(1));
        let col = vec![vec![0.0, 0.0], vec![1.0, 1.0], vec![2.0, 2.0]];
        let b = analyze(&orientation_matrix(&col), 1e-15);
        assert_eq!(b.decision, Decision::Zero, "{b:?}");
        let (m, ex) = insphere_matrix(&pts, &[1.0, 1.0]);
        assert!(ex);
        let b = analyze(&m, 1e-15);
        assert_eq!(b.decision, Decision::Zero, "{b:?}");
        let (m, _) = insphere_matrix(&pts, &[0.25, 0.25]);
        assert_eq!(analyze(&m, 1e-15).decision, Decision::Sign(1));
        // near-degenerate: tiny determinant inside the band
        let near = vec![vec![0.0, 0.0], vec![1.0, 1.0], vec![2.0, 2.0 + 1e-14]];
        assert_eq!(analyze(&orientation_matrix(&near), 1e-15).decision, Decision::InBand);
    }
}
