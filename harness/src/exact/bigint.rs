//! Minimal sign-magnitude arbitrary precision integer (no external crate is available offline).
//! Only what the exact geometric oracle needs: +, -, *, shifts, comparison, conversion from the
//! exact value of an `f64`, and an approximate conversion back to `f64` with explicit exponent.

use std::cmp::Ordering;

#[derive(Clone, Debug, PartialEq, Eq, Hash)]
pub struct BigInt {
    neg: bool,
    mag: Vec<u64>, // little endian, no trailing zero limbs; zero == empty && !neg
}

fn trim(v: &mut Vec<u64>) {
    while let Some(&0) = v.last() {
        v.pop();
    }
}

fn cmp_mag(a: &[u64], b: &[u64]) -> Ordering {
    if a.len() != b.len() {
        return a.len().cmp(&b.len());
    }
    for i in (0..a.len()).rev() {
        if a[i] != b[i] {
            return a[i].cmp(&b[i]);
        }
    }
    Ordering::Equal
}

fn add_mag(a: &[u64], b: &[u64]) -> Vec<u64> {
    let (a, b) = if a.len() >= b.len() { (a, b) } else { (b, a) };
    let mut out = Vec::with_capacity(a.len() + 1);
    let mut carry = 0u128;
    for i in 0..a.len() {
        let s = a[i] as u128 + if i < b.len() { b[i] as u128 } else { 0 } + carry;
        out.push(s as u64);
        carry = s >> 64;
    }
    if carry != 0 {
        out.push(carry as u64);
    }
    out
}

/// a - b, requires a >= b
fn sub_mag(a: &[u64], b: &[u64]) -> Vec<u64> {
    let mut out = Vec::with_capacity(a.len());
    let mut borrow = 0i128;
    for i in 0..a.len() {
        let mut d = a[i] as i128 - borrow - if i < b.len() { b[i] as i128 } else { 0 };
        if d < 0 {
            d += 1i128 << 64;
            borrow = 1;
        } else {
            borrow = 0;
        }
        out.push(d as u64);
    }
    debug_assert_eq!(borrow, 0);
    trim(&mut out);
    out
}

fn mul_mag(a: &[u64], b: &[u64]) -> Vec<u64> {
    if a.is_empty() || b.is_empty() {
        return Vec::new();
    }
    let mut out = vec![0u64; a.len() + b.len()];
    for i in 0..a.len() {
        let mut carry = 0u128;
        let ai = a[i] as u128;
        if ai == 0 {
            continue;
        }
        for j in 0..b.len() {
            let t = ai * (b[j] as u128) + out[i + j] as u128 + carry;
            out[i + j] = t as u64;
            carry = t >> 64;
        }
        let mut k = i + b.len();
        while carry != 0 {
            let t = out[k] as u128 + carry;
            out[k] = t as u64;
            carry = t >> 64;
            k += 1;
        }
    }
    trim(&mut out);
    out
}

impl BigInt {
    pub fn zero() -> Self {
        BigInt { neg: false, mag: Vec::new() }
    }
    pub fn one() -> Self {
        BigInt { neg: false, mag: vec![1] }
    }
    pub fn from_i64(v: i64) -> Self {
        Self::from_i128(v as i128)
    }
    pub fn from_u64(v: u64) -> Self {
        let mut mag = vec![v];
        trim(&mut mag);
        BigInt { neg: false, mag }
    }
    pub fn from_i128(v: i128) -> Self {
        let neg = v < 0;
        let m = v.unsigned_abs();
        let mut mag = vec![m as u64, (m >> 64) as u64];
        trim(&mut mag);
        BigInt { neg: neg && !mag.is_empty(), mag }
    }
    pub fn is_zero(&self) -> bool {
        self.mag.is_empty()
    }
    pub fn signum(&self) -> i32 {
        if self.mag.is_empty() {
            0
        } else if self.neg {
            -1
        } else {
            1
        }
    }
    pub fn neg(&self) -> Self {
        if self.mag.is_empty() {
            self.clone()
        } else {
            BigInt { neg: !self.neg, mag: self.mag.clone() }
        }
    }
    pub fn abs(&self) -> Self {
        BigInt { neg: false, mag: self.mag.clone() }
    }
    pub fn add(&self, o: &Self) -> Self {
        if self.neg == o.neg {
            return BigInt { neg: self.neg, mag: add_mag(&self.mag, &o.mag) };
        }
        match cmp_mag(&self.mag, &o.mag) {
            Ordering::Equal => BigInt::zero(),
            Ordering::Greater => BigInt { neg: self.neg, mag: sub_mag(&self.mag, &o.mag) },
            Ordering::Less => BigInt { neg: o.neg, mag: sub_mag(&o.mag, &self.mag) },
        }
    }
    pub fn sub(&self, o: &Self) -> Self {
        self.add(&o.neg())
    }
    pub fn mul(&self, o: &Self) -> Self {
        let mag = mul_mag(&self.mag, &o.mag);
        let neg = !mag.is_empty() && (self.neg != o.neg);
        BigInt { neg, mag }
    }
    pub fn mul_i64(&self, v: i64) -> Self {
        self.mul(&BigInt::from_i64(v))
    }
    pub fn shl(&self, bits: u32) -> Self {
        if self.mag.is_empty() || bits == 0 {
            return self.clone();
        }
        let limbs = (bits / 64) as usize;
        let b = bits % 64;
        let mut mag = vec![0u64; limbs];
        if b == 0 {
            mag.extend_from_slice(&self.mag);
        } else {
            let mut carry = 0u64;
            for &l in &self.mag {
                mag.push((l << b) | carry);
                carry = l >> (64 - b);
            }
            if carry != 0 {
                mag.push(carry);
            }
        }
        BigInt { neg: self.neg, mag }
    }
    pub fn bit_length(&self) -> u64 {
        match self.mag.last() {
            None => 0,
            Some(&t) => (self.mag.len() as u64 - 1) * 64 + (64 - t.leading_zeros() as u64),
        }
    }
    pub fn to_i128(&self) -> Option<i128> {
        if self.bit_length() > 126 {
            return None;
        }
        let mut m: u128 = 0;
        for (i, &l) in self.mag.iter().enumerate() {
            m |= (l as u128) << (64 * i);
        }
        let v = m as i128;
        Some(if self.neg { -v } else { v })
    }
    /// (mantissa, exponent) with value ≈ mantissa · 2^exponent, mantissa in (-2^64, 2^64) as f64,
    /// truncated (relative error < 2^-52).
    pub fn to_f64_exp(&self) -> (f64, i64) {
        let bl = self.bit_length();
        if bl == 0 {
            return (0.0, 0);
        }
        // take the top 64 bits
        let shift = bl.saturating_sub(64);
        let mut top: u64 = 0;
        for bit in 0..64.min(bl) {
            let pos = shift + bit;
            let limb = (pos / 64) as usize;
            let off = pos % 64;
            if (self.mag[limb] >> off) & 1 == 1 {
                top |= 1u64 << bit;
            }
        }
        let m = top as f64;
        (if self.neg { -m } else { m }, shift as i64)
    }
    /// Approximate value as f64 (±inf on overflow); relative error ≤ 2^-52.
    pub fn to_f64(&self) -> f64 {
        let (m, e) = self.to_f64_exp();
        ldexp(m, e)
    }
    /// The exact value of a finite f64 as mantissa·2^exp (mantissa odd or zero).
    pub fn decompose_f64(x: f64) -> (i64, i32) {
        assert!(x.is_finite(), "decompose_f64 on non-finite");
        if x == 0.0 {
            return (0, 0);
        }
        let bits = x.to_bits();
        let sign = if bits >> 63 == 1 { -1i64 } else { 1 };
        let exp = ((bits >> 52) & 0x7ff) as i32;
        let frac = (bits & ((1u64 << 52) - 1)) as i64;
        let (mut m, mut e) = if exp == 0 { (frac, -1074) } else { (frac | (1i64 << 52), exp - 1075) };
        while m & 1 == 0 {
            m >>= 1;
            e += 1;
        }
        (sign * m, e)
    }
}

pub fn ldexp(m: f64, e: i64) -> f64 {
    // split to avoid intermediate overflow/underflow
    let mut r = m;
    let mut e = e;
    while e > 0 {
        let s = e.min(1000);
        r *= 2f64.powi(s as i32);
        e -= s;
        if !r.is_finite() {
            return r;
        }
    }
    while e < 0 {
        let s = (-e).min(1000);
        r *= 2f64.powi(-(s as i32));
        e += s;
        if r == 0.0 {
            return r;
        }
    }
    r
}

impl PartialOrd for BigInt {
    fn partial_cmp(&self, o: &Self) -> Option<Ordering> {
        Some(self.cmp(o))
    }
}
impl Ord for BigInt {
    fn cmp(&self, o: &Self) -> Ordering {
        match (self.signum(), o.signum()) {
            (a, b) if a != b => a.cmp(&b),
            (0, _) => Ordering::Equal,
            (1, _) => cmp_mag(&self.mag, &o.mag),
            _ => cmp_mag(&o.mag, &self.mag),
        }
    }
}

/// Exact rational with BigInt numerator and positive denominator (not normalised).
#[derive(Clone, Debug)]
pub struct Rat {
    pub n: BigInt,
    pub d: BigInt,
}

impl Rat {
    pub fn from_int(n: BigInt) -> Self {
        Rat { n, d: BigInt::one() }
    }
    pub fn new(n: BigInt, d: BigInt) -> Self {
        assert!(!d.is_zero());
        if d.signum() < 0 {
            Rat { n: n.neg(), d: d.neg() }
        } else {
            Rat { n, d }
        }
    }
    /// exact value of a finite f64
    pub fn from_f64(x: f64) -> Self {
        let (m, e) = BigInt::decompose_f64(x);
        if e >= 0 {
            Rat { n: BigInt::from_i64(m).shl(e as u32), d: BigInt::one() }
        } else {
            Rat { n: BigInt::from_i64(m), d: BigInt::one().shl((-e) as u32) }
        }
    }
    pub fn signum(&self) -> i32 {
        self.n.signum()
    }
    pub fn add(&self, o: &Self) -> Self {
        Rat { n: self.n.mul(&o.d).add(&o.n.mul(&self.d)), d: self.d.mul(&o.d) }
    }
    pub fn sub(&self, o: &Self) -> Self {
        Rat { n: self.n.mul(&o.d).sub(&o.n.mul(&self.d)), d: self.d.mul(&o.d) }
    }
    pub fn mul(&self, o: &Self) -> Self {
        Rat { n: self.n.mul(&o.n), d: self.d.mul(&o.d) }
    }
    pub fn div(&self, o: &Self) -> Self {
        assert!(!o.n.is_zero());
        Rat::new(self.n.mul(&o.d), self.d.mul(&o.n))
    }
    pub fn cmp(&self, o: &Self) -> Ordering {
        self.n.mul(&o.d).cmp(&o.n.mul(&self.d))
    }
    pub fn abs(&self) -> Self {
        Rat { n: self.n.abs(), d: self.d.clone() }
    }
    /// approximate f64 value, relative error ≤ 2^-50
    pub fn to_f64(&self) -> f64 {
        let (mn, en) = self.n.to_f64_exp();
        let (md, ed) = self.d.to_f64_exp();
        if mn == 0.0 {
            return 0.0;
        }
        ldexp(mn / md, en - ed)
    }
}

#[cfg(test)]
mod tests {
    use super::*;
    #[test]
    fn arith_matches_i128() {
        let vals: [i128; 9] = [0, 1, -1, 7, -13, 1 << 40, -(1 << 62), (1 << 63) + 5, -((1 << 64) + 12345)];
        for &a in &vals {
            for &b in &vals {
                let (x, y) = (BigInt::from_i128(a), BigInt::from_i128(b));
                assert_eq!(x.add(&y).to_i128(), Some(a + b));
                assert_eq!(x.sub(&y).to_i128(), Some(a - b));
                if let Some(p) = a.checked_mul(b) {
                    if p.unsigned_abs() < (1u128 << 126) {
                        assert_eq!(x.mul(&y).to_i128(), Some(p));
                    }
                }
                assert_eq!(x.cmp(&y), a.cmp(&b));
            }
        }
        let big = BigInt::from_i128(3).shl(200);
        assert_eq!(big.bit_length(), 202);
        assert_eq!(big.sub(&big).signum(), 0);
        let (m, e) = big.to_f64_exp();
        assert_eq!(ldexp(m, e), 3.0 * 2f64.powi(200));
    }
    #[test]
    fn f64_decompose_roundtrip() {
        for &x in &[1.0, -0.5, 0.1, 1e-300, 5e-324, 1.7e308, -3.75, 1e-10] {
            let (m, e) = BigInt::decompose_f64(x);
            assert_eq!(ldexp(m as f64, e as i64), x);
            assert_eq!(Rat::from_f64(x).to_f64(), x);
        }
    }
}
