//! Exact determinants of matrices whose entries are finite f64 values (each an exact dyadic
//! rational), by scaling to integers and division-free subset-DP Laplace expansion.

use super::bigint::{ldexp, BigInt};

/// Exact integer matrix with a common binary exponent: real entry = int · 2^exp.
#[derive(Clone, Debug)]
pub struct ScaledIntMat {
    pub n: usize,
    pub a: Vec<BigInt>, // row-major
    pub exp: i32,
}

/// Value of an exact determinant: sign, and magnitude as mantissa·2^e (approximate, rel. err ≤ 2^-52).
#[derive(Clone, Copy, Debug)]
pub struct DetVal {
    pub sign: i32,
    pub mant: f64,
    pub exp: i64,
}

impl DetVal {
    pub fn approx(&self) -> f64 {
        ldexp(self.mant, self.exp)
    }
    pub fn abs_approx(&self) -> f64 {
        self.approx().abs()
    }
}

pub fn scale_entries(rows: &[Vec<f64>]) -> ScaledIntMat {
    let n = rows.len();
    let mut dec = Vec::with_capacity(n * n);
    let mut emin = i32::MAX;
    for r in rows {
        assert_eq!(r.len(), n);
        for &x in r {
            let (m, e) = BigInt::decompose_f64(x);
            if m != 0 {
                emin = emin.min(e);
            }
            dec.push((m, e));
        }
    }
    if emin == i32::MAX {
        emin = 0;
    }
    let a = dec
        .into_iter()
        .map(|(m, e)| if m == 0 { BigInt::zero() } else { BigInt::from_i64(m).shl((e - emin) as u32) })
        .collect();
    ScaledIntMat { n, a, exp: emin }
}

fn det_i128(n: usize, a: &[i128]) -> Option<i128> {
    // dp over column subsets, rows taken in order
    let full = 1usize << n;
    let mut dp = vec![0i128; full];
    dp[0] = 1;
    for mask in 1..full {
        let r = (mask.count_ones() - 1) as usize;
        let mut acc: i128 = 0;
        let mut pos = 0usize; // position of column j among mask's columns (ascending)
        for j in 0..n {
            if mask & (1 << j) == 0 {
                continue;
            }
            let sub = dp[mask & !(1 << j)];
            let e = a[r * n + j];
            if e != 0 && sub != 0 {
                let t = e.checked_mul(sub)?;
                // expansion along the last row r of the (r+1)x(r+1) minor: sign (-1)^(r+pos)
                if (r + pos) % 2 == 0 {
                    acc = acc.checked_add(t)?;
                } else {
                    acc = acc.checked_sub(t)?;
                }
            }
            pos += 1;
        }
        dp[mask] = acc;
    }
    Some(dp[full - 1])
}

fn det_big(n: usize, a: &[BigInt]) -> BigInt {
    let full = 1usize << n;
    let mut dp: Vec<BigInt> = vec![BigInt::zero(); full];
    dp[0] = BigInt::one();
    for mask in 1..full {
        let r = (mask.count_ones() - 1) as usize;
        let mut acc = BigInt::zero();
        let mut pos = 0usize;
        for j in 0..n {
            if mask & (1 << j) == 0 {
                continue;
            }
            let sub = &dp[mask & !(1 << j)];
            let e = &a[r * n + j];
            if !e.is_zero() && !sub.is_zero() {
                let t = e.mul(sub);
                if (r + pos) % 2 == 0 {
                    acc = acc.add(&t);
                } else {
                    acc = acc.sub(&t);
                }
            }
            pos += 1;
        }
        dp[mask] = acc;
    }
    dp.pop().unwrap()
}

/// Exact determinant of an integer matrix.
pub fn det_int(n: usize, a: &[BigInt]) -> BigInt {
    if n == 0 {
        return BigInt::one();
    }
    // fast path
    let mut small = Vec::with_capacity(n * n);
    let mut ok = true;
    for x in a {
        match x.to_i128() {
            Some(v) if x.bit_length() <= 100 => small.push(v),
            _ => {
                ok = false;
                break;
            }
        }
    }
    if ok {
        if let Some(d) = det_i128(n, &small) {
            return BigInt::from_i128(d);
        }
    }
    det_big(n, a)
}

pub fn det_i128_small(n: usize, a: &[i128]) -> BigInt {
    match det_i128(n, a) {
        Some(d) => BigInt::from_i128(d),
        None => {
            let b: Vec<BigInt> = a.iter().map(|&v| BigInt::from_i128(v)).collect();
            det_big(n, &b)
        }
    }
}

impl ScaledIntMat {
    pub fn det(&self) -> DetVal {
        let d = det_int(self.n, &self.a);
        let (m, e) = d.to_f64_exp();
        DetVal { sign: d.signum(), mant: m, exp: e + (self.exp as i64) * (self.n as i64) }
    }
    /// |cofactor_ij| for all i,j as approximate reals (upper-rounded by a factor 1+2^-50).
    pub fn abs_cofactors(&self) -> Vec<f64> {
        let n = self.n;
        let mut out = vec![0.0; n * n];
        if n == 1 {
            out[0] = 1.0;
            return out;
        }
        for i in 0..n {
            for j in 0..n {
                let mut minor = Vec::with_capacity((n - 1) * (n - 1));
                for r in 0..n {
                    if r == i {
                        continue;
                    }
                    for c in 0..n {
                        if c == j {
                            continue;
                        }
                        minor.push(self.a[r * n + c].clone());
                    }
                }
                let d = det_int(n - 1, &minor);
                let (m, e) = d.to_f64_exp();
                out[i * n + j] =
                    ldexp(m.abs(), e + (self.exp as i64) * ((n - 1) as i64)) * (1.0 + 2f64.powi(-50));
            }
        }
        out
    }
}

/// Exact determinant of an f64 matrix.
pub fn det_f64_matrix(rows: &[Vec<f64>]) -> DetVal {
    scale_entries(rows).det()
}

#[cfg(test)]
mod tests {
    use super::*;
    #[test]
    fn small_dets() {
        let m = vec![vec![1.0, 2.0], vec![3.0, 4.0]];
        let d = det_f64_matrix(&m);
        assert_eq!(d.sign, -1);
        assert_eq!(d.approx(), -2.0);
        let m = vec![vec![2.0, 0.0, 0.0], vec![0.0, 0.5, 0.0], vec![0.0, 0.0, 4.0]];
        assert_eq!(det_f64_matrix(&m).approx(), 4.0);
        // row swap flips sign
        let m = vec![vec![0.0, 0.5, 0.0], vec![2.0, 0.0, 0.0], vec![0.0, 0.0, 4.0]];
        assert_eq!(det_f64_matrix(&m).approx(), -4.0);
        // singular
        let m = vec![vec![1.0, 2.0, 3.0], vec![2.0, 4.0, 6.0], vec![0.1, 0.7, 0.3]];
        assert_eq!(det_f64_matrix(&m).sign, 0);
        // big/small mix forces bigint path
        let m = vec![vec![1e200, 1.0], vec![1.0, 1e-200]];
        let d = det_f64_matrix(&m);
        // 1e200*1e-200 as exact product of the two doubles minus 1: tiny nonzero or zero, but sign must be consistent with exact rational arithmetic
        let a = super::super::bigint::Rat::from_f64(1e200).mul(&super::super::bigint::Rat::from_f64(1e-200));
        let one = super::super::bigint::Rat::from_f64(1.0);
        assert_eq!(d.sign, a.sub(&one).signum());
    }
    #[test]
    fn cofactors_identity() {
        // Laplace along row 0: det = sum_j a0j * cof0j (signed); check magnitude relation on a diagonal matrix
        let m = vec![vec![2.0, 0.0, 0.0], vec![0.0, 3.0, 0.0], vec![0.0, 0.0, 5.0]];
        let s = scale_entries(&m);
        let c = s.abs_cofactors();
        assert!((c[0] - 15.0).abs() < 1e-9);
        assert!((c[4] - 10.0).abs() < 1e-9);
        assert!((c[8] - 6.0).abs() < 1e-9);
        assert_eq!(c[1], 0.0);
    }
}
