pub mod ctx;
pub mod known;
pub mod run;
