//! Driver: replay tier, worker subprocesses, aggregation, evidence, verdict.

use super::ctx::{install_panic_hook, Ctx, FoundViolation, ShardResult, Tier, Violation};
use super::known::KnownFindings;
use crate::props;
use serde_json::{json, Value};
use std::collections::{BTreeMap, BTreeSet};
use std::path::{Path, PathBuf};
use std::process::{Command, Stdio};
use std::time::{Duration, Instant};

pub fn verif_root() -> PathBuf {
    if let Ok(p) = std::env::var("VERIF_ROOT") {
        return PathBuf::from(p);
    }
    PathBuf::from("/verif")
}

fn bins() -> Vec<(String, PathBuf)> {
    // DVCHECK_BINS="release=/path,relchk=/path"; default: the running binary under its own profile name
    if let Ok(s) = std::env::var("DVCHECK_BINS") {
        let v: Vec<(String, PathBuf)> = s
            .split(',')
            .filter_map(|kv| kv.split_once('='))
            .map(|(k, v)| (k.to_string(), PathBuf::from(v)))
            .collect();
        if !v.is_empty() {
            return v;
        }
    }
    let me = std::env::current_exe().expect("current_exe");
    vec![(if cfg!(debug_assertions) { "relchk".into() } else { "release".into() }, me)]
}

pub fn profile_name() -> &'static str {
    if cfg!(debug_assertions) {
        "relchk"
    } else {
        "release"
    }
}

fn seed_from_env() -> u64 {
    std::env::var("VERIF_SEED").ok().and_then(|s| s.trim().parse::<i64>().ok()).map(|v| v as u64).unwrap_or(20260926)
}

/// `dvcheck worker <prop> <tier> <seed> <shard> <nshards> <out>`
pub fn worker_main(args: &[String]) -> i32 {
    let prop = &args[0];
    let tier = Tier::parse(&args[1]);
    let seed: u64 = args[2].parse().unwrap();
    let shard: usize = args[3].parse().unwrap();
    let nshards: usize = args[4].parse().unwrap();
    let out = PathBuf::from(&args[5]);
    install_panic_hook();
    let known = KnownFindings::load(&verif_root().join("known_findings.json"));
    let mut ctx = Ctx::new(prop, profile_name(), tier, seed, shard, nshards, known);
    // in-worker watchdog: a single case running longer than the limit => dump it and exit 3
    let limit = Duration::from_secs(std::env::var("DVCHECK_CASE_TIMEOUT_S").ok().and_then(|s| s.parse().ok()).unwrap_or(match tier {
        Tier::Quick => 120,
        Tier::Thorough => 600,
    }));
    {
        let out = out.clone();
        std::thread::spawn(move || loop {
            std::thread::sleep(Duration::from_millis(500));
            let g = super::ctx::current_case_slot().lock().unwrap();
            if let Some((t0, case)) = &*g {
                if t0.elapsed() > limit {
                    let _ = std::fs::write(out.with_extension("hang.json"), case);
                    if let Some(bytes) = super::ctx::partial_result_slot().lock().ok().and_then(|g| g.clone()) {
                        let _ = std::fs::write(&out, bytes);
                    }
                    std::process::exit(3);
                }
            }
        });
    }
    let t0 = Instant::now();
    props::run_shard(prop, &mut ctx);
    ctx.res.wall_s = t0.elapsed().as_secs_f64();
    ctx.res.nontrivial_hashes = ctx_nontrivial(&ctx);
    std::fs::write(&out, serde_json::to_vec(&ctx.res).unwrap()).expect("write shard result");
    0
}

fn ctx_nontrivial(ctx: &Ctx) -> Vec<u64> {
    ctx.nontrivial_hashes()
}

/// `dvcheck replay <file> [--strict]` : exit 0 pass, 1 violation reproduced, 2 error
pub fn replay_main(args: &[String]) -> i32 {
    install_panic_hook();
    let path = PathBuf::from(&args[0]);
    let strict = args.iter().any(|a| a == "--strict");
    let txt = match std::fs::read_to_string(&path) {
        Ok(t) => t,
        Err(e) => {
            eprintln!("cannot read {}: {e}", path.display());
            return 2;
        }
    };
    let v: Value = match serde_json::from_str(&txt) {
        Ok(v) => v,
        Err(e) => {
            eprintln!("invalid replay file: {e}");
            return 2;
        }
    };
    let prop = v["property"].as_str().unwrap_or("").to_string();
    let label = v["label"].as_str().unwrap_or("").to_string();
    // a replay file records the build profile it was found under (some findings exist only with
    // debug assertions): hand over to the sibling binary of that profile when there is one
    if let Some(want) = v["profile"].as_str() {
        if want != profile_name() && std::env::var_os("DVCHECK_NO_PROFILE_SWITCH").is_none() {
            if let Ok(exe) = std::env::current_exe() {
                if let Some(sibling) = exe.parent().and_then(|d| d.parent()).map(|t| t.join(want).join("dvcheck")) {
                    if sibling.exists() {
                        let st = Command::new(sibling).arg("replay").args(args).env("DVCHECK_NO_PROFILE_SWITCH", "1").status();
                        return st.ok().and_then(|s| s.code()).unwrap_or(2);
                    }
                }
            }
        }
    }
    let known = KnownFindings::load(&verif_root().join("known_findings.json"));
    let mut ctx = Ctx::new(&prop, profile_name(), Tier::Quick, 0, 0, 1, known);
    ctx.strict = strict;
    // a replay that does not return is reported as such (C19 termination); everything else about a
    // slow replay is the caller's business
    {
        let limit = Duration::from_secs(std::env::var("DVCHECK_REPLAY_TIMEOUT_S").ok().and_then(|s| s.parse().ok()).unwrap_or(300));
        let prop = prop.clone();
        std::thread::spawn(move || {
            std::thread::sleep(limit);
            let v = crate::driver::ctx::Violation::new(&prop, "no_return", "call", format!("the replayed case did not return within {} s in a process of its own", limit.as_secs())).fact("profile", profile_name());
            println!("REPRODUCED {}", serde_json::to_string(&v).unwrap());
            std::process::exit(if prop == "C19" { 1 } else { 2 });
        });
    }
    let r = props::replay(&prop, &label, &v["case"], &mut ctx);
    if !ctx.res.harness_errors.is_empty() {
        eprintln!("harness error: {:?}", ctx.res.harness_errors);
        return 2;
    }
    match r {
        Some(viol) => {
            println!("REPRODUCED {}", serde_json::to_string(&viol).unwrap());
            1
        }
        None => {
            println!("PASS");
            0
        }
    }
}

struct ReplayOutcome {
    code: i32,
    violation: Option<Value>,
}

fn run_replay(bin: &Path, file: &Path, strict: bool) -> ReplayOutcome {
    let mut cmd = Command::new(bin);
    cmd.arg("replay").arg(file).env("DVCHECK_NO_PROFILE_SWITCH", "1");
    if strict {
        cmd.arg("--strict");
    }
    let out = cmd.stderr(Stdio::inherit()).output();
    match out {
        Ok(o) => {
            let so = String::from_utf8_lossy(&o.stdout).to_string();
            let violation = so.lines().find_map(|l| l.strip_prefix("REPRODUCED ")).and_then(|j| serde_json::from_str(j).ok());
            ReplayOutcome { code: o.status.code().unwrap_or(2), violation }
        }
        Err(_) => ReplayOutcome { code: 2, violation: None },
    }
}

pub fn run_main(args: &[String]) -> i32 {
    let prop = args[0].clone();
    let mut tier = std::env::var("VERIF_TIER").map(|s| Tier::parse(&s)).unwrap_or(Tier::Quick);
    let mut i = 1;
    while i < args.len() {
        if args[i] == "--tier" && i + 1 < args.len() {
            tier = Tier::parse(&args[i + 1]);
            i += 1;
        }
        i += 1;
    }
    let Some(meta) = props::meta(&prop) else {
        eprintln!("unknown property {prop}");
        return 2;
    };
    let seed = seed_from_env();
    let root = verif_root();
    let known = KnownFindings::load(&root.join("known_findings.json"));
    let bins = bins();
    let t0 = Instant::now();
    let mut exit_code = 0;
    let mut inconclusive: Vec<String> = Vec::new();
    let mut violation_lines: Vec<String> = Vec::new();
    let mut hang_violation_reported = false;
    let mut known_reproduced = 0usize;
    let mut replays_run = 0usize;

    let bin_for = |profile: &str| -> PathBuf {
        bins.iter().find(|(p, _)| p == profile).or_else(|| bins.first()).map(|(_, b)| b.clone()).unwrap()
    };

    // ---- replay tier: known findings and regression files ----
    for f in known.for_property(&prop) {
        let Some(rp) = &f.replay else { continue };
        let file = root.join(rp);
        let profile = std::fs::read_to_string(&file)
            .ok()
            .and_then(|t| serde_json::from_str::<Value>(&t).ok())
            .and_then(|v| v["profile"].as_str().map(|s| s.to_string()))
            .unwrap_or_else(|| "release".into());
        let profiles: Vec<String> = if profile == "any" || profile == "both" { bins.iter().map(|(p, _)| p.clone()).collect() } else { vec![profile] };
        for p in profiles {
            // open findings are replayed strictly (nothing is excused); fixed ones with the known list
            // active, so that only the regression of the fixed defect itself shows up
            let o = run_replay(&bin_for(&p), &file, f.status == "open");
            replays_run += 1;
            match (f.status.as_str(), o.code) {
                ("open", 1) => {
                    known_reproduced += 1;
                    println!("KNOWN-FINDING: property={} {} [{}; profile {}; replay {}]", f.property, f.what, f.id, p, rp);
                }
                ("open", 0) => {
                    println!("NOTE: known finding {} no longer reproduces under profile {} (replay {})", f.id, p, rp);
                }
                ("fixed", 0) => {}
                ("fixed", 1) => {
                    exit_code = 1;
                    violation_lines.push(format!("VIOLATION property={} replay={}", prop, file.display()));
                }
                _ => inconclusive.push(format!("replay {} exited {}", rp, o.code)),
            }
        }
    }
    // regression replays: every file under replays/<prop>/ marked expect=pass
    if let Ok(rd) = std::fs::read_dir(root.join("replays").join(&prop)) {
        let mut files: Vec<PathBuf> = rd.filter_map(|e| e.ok()).map(|e| e.path()).filter(|p| p.extension().map_or(false, |e| e == "json")).collect();
        files.sort();
        for file in files {
            let Some(v) = std::fs::read_to_string(&file).ok().and_then(|t| serde_json::from_str::<Value>(&t).ok()) else { continue };
            if v["expect"].as_str() != Some("pass") {
                continue;
            }
            for (p, b) in &bins {
                if let Some(fp) = v["profile"].as_str() {
                    if fp != "any" && fp != "both" && fp != p {
                        continue;
                    }
                }
                let o = run_replay(b, &file, false);
                replays_run += 1;
                if o.code == 1 {
                    exit_code = 1;
                    violation_lines.push(format!("VIOLATION property={} replay={}", prop, file.display()));
                } else if o.code != 0 {
                    inconclusive.push(format!("regression replay {} exited {}", file.display(), o.code));
                }
            }
        }
    }

    // ---- generated search: worker subprocesses ----
    let cores = std::thread::available_parallelism().map(|n| n.get()).unwrap_or(8);
    let per_profile = (cores / bins.len()).max(1).min(meta.max_shards);
    let rundir = root.join("harness").join("target").join("runs").join(format!("{}-{}-{}", prop, tier.name(), std::process::id()));
    let _ = std::fs::create_dir_all(&rundir);
    let mut children = Vec::new();
    for (pname, bin) in &bins {
        for shard in 0..per_profile {
            let out = rundir.join(format!("{pname}-{shard}.json"));
            let child = Command::new(bin)
                .arg("worker")
                .arg(&prop)
                .arg(tier.name())
                .arg(seed.to_string())
                .arg(shard.to_string())
                .arg(per_profile.to_string())
                .arg(&out)
                .stdout(Stdio::null())
                .stderr(std::fs::File::create(out.with_extension("stderr")).map(Stdio::from).unwrap_or_else(|_| Stdio::null()))
                .spawn();
            match child {
                Ok(c) => children.push((pname.clone(), shard, out, c)),
                Err(e) => inconclusive.push(format!("cannot spawn worker {pname}/{shard}: {e}")),
            }
        }
    }
    let deadline = Instant::now()
        + Duration::from_secs(std::env::var("DVCHECK_RUN_TIMEOUT_S").ok().and_then(|s| s.parse().ok()).unwrap_or(match tier {
            Tier::Quick => 1500,
            Tier::Thorough => 6 * 3600,
        }));
    let mut results: Vec<ShardResult> = Vec::new();
    for (pname, shard, out, mut child) in children {
        let status = loop {
            match child.try_wait() {
                Ok(Some(st)) => break Some(st),
                Ok(None) => {
                    if Instant::now() > deadline {
                        let _ = child.kill();
                        let _ = child.wait();
                        break None;
                    }
                    std::thread::sleep(Duration::from_millis(50));
                }
                Err(_) => break None,
            }
        };
        match status {
            None => inconclusive.push(format!("worker {pname}/{shard} exceeded the run deadline and was killed")),
            Some(st) if st.success() => match std::fs::read(&out).ok().and_then(|b| serde_json::from_slice::<ShardResult>(&b).ok()) {
                Some(r) => results.push(r),
                None => inconclusive.push(format!("worker {pname}/{shard} produced no result")),
            },
            Some(st) => {
                let hang = out.with_extension("hang.json");
                if st.code() == Some(3) {
                    // results of the labels completed before the case that never returned
                    if let Some(r) = std::fs::read(&out).ok().and_then(|b| serde_json::from_slice::<ShardResult>(&b).ok()) {
                        results.push(r);
                    }
                }
                if st.code() == Some(3) && hang.exists() {
                    let keep = root.join("replays").join(&prop);
                    let _ = std::fs::create_dir_all(&keep);
                    let dst = keep.join(format!("hang-{pname}-{shard}.json"));
                    // wrap into a replay file
                    let doc: Value = std::fs::read_to_string(&hang).ok().and_then(|t| serde_json::from_str(&t).ok()).unwrap_or(Value::Null);
                    let replay_doc = json!({"property": prop, "label": doc["label"], "case": doc["case"], "profile": pname, "seed": seed, "tier": tier.name(), "expect": "violation",
                        "violation": {"property": prop, "kind": "no_return", "site": "call", "facts": {"profile": pname}, "message": "a generated case exceeded the per-case wall-clock watchdog"}});
                    let _ = std::fs::write(&dst, serde_json::to_vec_pretty(&replay_doc).unwrap_or_default());
                    if prop == "C19" && hang_violation_reported {
                        println!("  (another generated case exceeded the watchdog: {})", dst.display());
                    } else if prop == "C19" {
                        // termination is what C19 claims: confirm in a process of its own (nothing else
                        // running in it, 300 s = many orders of magnitude above the median case)
                        let o = run_replay(&bin_for(&pname), &dst, false);
                        match (o.code, &o.violation) {
                            (1, Some(v)) if v["kind"] == "no_return" => {
                                let viol: Violation = serde_json::from_value(v.clone()).unwrap_or_else(|_| Violation::new(&prop, "no_return", "call", "no return"));
                                if let Some(id) = known.matches(&viol) {
                                    println!("KNOWN-FINDING: property={} {} [{}; generated case {}]", prop, known.findings.iter().find(|f| f.id == id).map(|f| f.what.clone()).unwrap_or_default(), id, dst.display());
                                } else {
                                    println!("  -> {}/no_return/call [{pname}] a generated case did not return within the watchdog, nor within 300 s when replayed alone", prop);
                                    violation_lines.push(format!("VIOLATION property={} replay={}", prop, dst.display()));
                                    hang_violation_reported = true;
                                }
                            }
                            (1, Some(_)) => violation_lines.push(format!("VIOLATION property={} replay={}", prop, dst.display())),
                            _ => inconclusive.push(format!("worker {pname}/{shard}: a case exceeded the wall-clock watchdog but returns when replayed alone (case saved to {})", dst.display())),
                        }
                    } else {
                        inconclusive.push(format!("worker {pname}/{shard}: a case exceeded the wall-clock watchdog (case saved to {})", dst.display()));
                    }
                } else {
                    let tail = std::fs::read_to_string(out.with_extension("stderr")).unwrap_or_default();
                    let tail: Vec<&str> = tail.lines().filter(|l| !l.starts_with("proptest:")).rev().take(6).collect();
                    inconclusive.push(format!("worker {pname}/{shard} died with status {st}: {:?}", tail));
                }
            }
        }
    }

    // ---- aggregate ----
    let mut evaluations: u64 = 0;
    let mut cases: u64 = 0;
    let mut nontrivial: BTreeSet<u64> = BTreeSet::new();
    let mut classes: BTreeMap<String, u64> = BTreeMap::new();
    let mut samples: Vec<Value> = Vec::new();
    let mut excluded: BTreeMap<String, u64> = BTreeMap::new();
    let mut found: Vec<(String, FoundViolation)> = Vec::new();
    let mut harness_errors: Vec<String> = Vec::new();
    for r in &results {
        evaluations += r.evaluations;
        cases += r.cases;
        nontrivial.extend(r.nontrivial_hashes.iter().copied());
        for (k, v) in &r.classes {
            *classes.entry(format!("{k}")).or_default() += v;
            *classes.entry(format!("profile:{}", r.profile)).or_default() += 0;
        }
        *classes.entry(format!("profile:{}", r.profile)).or_default() += r.cases;
        for s in &r.samples {
            if samples.len() < 8 {
                samples.push(s.clone());
            }
        }
        for (k, v) in &r.excluded_known {
            *excluded.entry(k.clone()).or_default() += v;
        }
        for f in &r.found {
            found.push((r.profile.clone(), f.clone()));
        }
        harness_errors.extend(r.harness_errors.iter().cloned());
        if let Some(dir) = std::env::var_os("DVCHECK_SAVE_KNOWN") {
            let dir = PathBuf::from(dir);
            let _ = std::fs::create_dir_all(&dir);
            for (k, v) in &r.known_samples {
                let name = format!("known-{:016x}.json", super::ctx::str_seed(k));
                let path = dir.join(name);
                if !path.exists() {
                    let doc = json!({"property": prop, "label": "known_sample", "profile": r.profile, "case": v["case"], "key": k, "violation": v["violation"], "expect": "violation"});
                    let _ = std::fs::write(&path, serde_json::to_vec_pretty(&doc).unwrap());
                }
            }
        }
    }
    // distinct root signatures
    let mut seen_sig: BTreeSet<String> = BTreeSet::new();
    let vdir = root.join("replays").join(&prop);
    for (profile, f) in &found {
        let sig = f.violation.signature();
        if !seen_sig.insert(sig.clone()) {
            continue;
        }
        let _ = std::fs::create_dir_all(&vdir);
        let name = format!("violation-{:016x}.json", super::ctx::str_seed(&format!("{sig}|{}", f.label)));
        let path = vdir.join(name);
        let doc = json!({
            "property": prop, "label": f.label, "profile": profile, "case": f.case,
            "violation": f.violation, "expect": "violation", "seed": seed, "tier": tier.name(),
        });
        let _ = std::fs::write(&path, serde_json::to_vec_pretty(&doc).unwrap());
        violation_lines.push(format!("VIOLATION property={} replay={}", prop, path.display()));
        eprintln!("  -> {} [{}] {}", sig, profile, f.violation.message);
        exit_code = 1;
    }
    if !harness_errors.is_empty() {
        for e in harness_errors.iter().take(5) {
            eprintln!("HARNESS-ERROR: {e}");
        }
        inconclusive.push(format!("{} harness errors", harness_errors.len()));
    }

    let wall = t0.elapsed().as_secs_f64();
    let evidence = json!({
        "property_id": prop,
        "tier": tier.name(),
        "seed": seed as i64,
        "level": meta.level,
        "coverage": {
            "evaluations": evaluations,
            "distinct_nontrivial": nontrivial.len(),
            "rule": meta.rule,
            "samples": samples,
            "generated_cases": cases,
            "classes": classes,
            "excluded_known": excluded,
            "known_findings_reproduced": known_reproduced,
            "replays_run": replays_run,
            "profiles": bins.iter().map(|(p, _)| p.clone()).collect::<Vec<_>>(),
            "shards_per_profile": per_profile,
            "exhaustive": meta.exhaustive,
            "inconclusive": inconclusive,
        },
        "assumptions": meta.assumptions,
        "wall_s": wall,
        "violations": violation_lines.len(),
    });
    let edir = root.join("evidence");
    let _ = std::fs::create_dir_all(&edir);
    let _ = std::fs::write(edir.join(format!("{prop}.json")), serde_json::to_vec_pretty(&evidence).unwrap());
    let _ = std::fs::remove_dir_all(&rundir);

    for l in &violation_lines {
        println!("{l}");
    }
    println!(
        "{} {}: {} evaluations in {} cases, {} distinct non-trivial, {} known-excluded, {:.1}s{}",
        prop,
        tier.name(),
        evaluations,
        cases,
        nontrivial.len(),
        excluded.values().sum::<u64>(),
        wall,
        if inconclusive.is_empty() { String::new() } else { format!(", INCONCLUSIVE: {:?}", inconclusive) }
    );
    if !violation_lines.is_empty() {
        exit_code = 1;
    }
    if exit_code == 0 && !inconclusive.is_empty() {
        return 2;
    }
    exit_code
}

pub fn main_entry() -> i32 {
    let args: Vec<String> = std::env::args().skip(1).collect();
    if args.is_empty() {
        eprintln!("usage: dvcheck run <Cxx> [--tier quick|thorough] | worker ... | replay <file> [--strict] | list");
        return 2;
    }
    match args[0].as_str() {
        "run" => run_main(&args[1..]),
        "worker" => worker_main(&args[1..]),
        "replay" => replay_main(&args[1..]),
        "emit-fingerprint" => crate::props::c14::emit_fingerprint(&args[1]),
        "emit-corpus" => crate::props::c13::emit_corpus(&args[1]),
        // `dvcheck fuzz-one <Cxx> <file>`: run one libFuzzer input (bytes = random stream of the property's strategy)
        "fuzz-one" => {
            install_panic_hook();
            let data = std::fs::read(&args[2]).unwrap_or_default();
            let known = KnownFindings::load(&verif_root().join("known_findings.json"));
            let mut ctx = Ctx::new(&args[1], profile_name(), Tier::Thorough, 0, 0, 1, known);
            match props::fuzz_bytes(&args[1], &data, &mut ctx) {
                Some((label, v, case)) => {
                    println!("REPRODUCED {}", serde_json::to_string(&json!({"label": label, "violation": v, "case": case})).unwrap());
                    1
                }
                None => {
                    println!("PASS ({} evaluations)", ctx.res.evaluations);
                    0
                }
            }
        }
        "list" => {
            for id in props::all_ids() {
                println!("{id}");
            }
            0
        }
        _ => {
            eprintln!("unknown command");
            2
        }
    }
}

#[allow(dead_code)]
fn _unused(_: &Ctx) {
    install_panic_hook();
}
