//! Per-worker accumulation: counters, non-trivial case hashes, class histogram, samples,
//! violations and the proptest plumbing shared by all property runners.

use proptest::strategy::Strategy;
use proptest::test_runner::{Config, RngSeed, TestCaseError, TestError, TestRunner};
use serde::{Deserialize, Serialize};
use serde_json::{json, Value};
use std::cell::{Cell, RefCell};
use std::collections::{BTreeMap, BTreeSet};
use std::hash::{Hash, Hasher};
use std::sync::{Mutex, OnceLock};
use std::time::Instant;

use super::known::KnownFindings;

#[derive(Clone, Copy, Debug, PartialEq, Eq, Serialize, Deserialize)]
#[serde(rename_all = "lowercase")]
pub enum Tier {
    Quick,
    Thorough,
}

impl Tier {
    pub fn parse(s: &str) -> Tier {
        if s == "thorough" {
            Tier::Thorough
        } else {
            Tier::Quick
        }
    }
    pub fn name(self) -> &'static str {
        match self {
            Tier::Quick => "quick",
            Tier::Thorough => "thorough",
        }
    }
    pub fn pick(self, quick: u32, thorough: u32) -> u32 {
        match self {
            Tier::Quick => quick,
            Tier::Thorough => thorough,
        }
    }
}

#[derive(Clone, Debug, Serialize, Deserialize)]
pub struct Violation {
    pub property: String,
    pub kind: String,
    pub site: String,
    #[serde(default)]
    pub facts: BTreeMap<String, Value>,
    pub message: String,
}

impl Violation {
    pub fn new(property: &str, kind: &str, site: &str, message: impl Into<String>) -> Self {
        Violation { property: property.into(), kind: kind.into(), site: site.into(), facts: BTreeMap::new(), message: message.into() }
    }
    pub fn fact(mut self, k: &str, v: impl Into<Value>) -> Self {
        self.facts.insert(k.into(), v.into());
        self
    }
    pub fn signature(&self) -> String {
        format!("{}/{}/{}", self.property, self.kind, self.site)
    }
}

/// What a single executed case reports back.
#[derive(Default, Debug)]
pub struct CaseLog {
    pub classes: Vec<String>,
    pub nontrivial: Option<u64>,
    pub violations: Vec<Violation>,
    pub sample: Option<Value>,
    pub evals: u64,
}

impl CaseLog {
    pub fn class(&mut self, c: impl Into<String>) {
        self.classes.push(c.into());
    }
    pub fn nontrivial_hash(&mut self, h: u64) {
        self.nontrivial = Some(h);
    }
    pub fn violate(&mut self, v: Violation) {
        self.violations.push(v);
    }
}

pub fn hash_of<T: Hash>(t: &T) -> u64 {
    let mut h = std::collections::hash_map::DefaultHasher::new();
    t.hash(&mut h);
    h.finish()
}

pub fn hash_json(v: &Value) -> u64 {
    hash_of(&v.to_string())
}

pub fn mix_seed(parts: &[u64]) -> u64 {
    // splitmix64 over the parts
    let mut x: u64 = 0x9E37_79B9_7F4A_7C15;
    for &p in parts {
        x ^= p.wrapping_add(0x9E37_79B9_7F4A_7C15).wrapping_add(x << 6).wrapping_add(x >> 2);
        x = (x ^ (x >> 30)).wrapping_mul(0xBF58_476D_1CE4_E5B9);
        x = (x ^ (x >> 27)).wrapping_mul(0x94D0_49BB_1331_11EB);
        x ^= x >> 31;
    }
    x
}

pub fn str_seed(s: &str) -> u64 {
    let mut h: u64 = 0xcbf2_9ce4_8422_2325;
    for b in s.bytes() {
        h ^= b as u64;
        h = h.wrapping_mul(0x100_0000_01b3);
    }
    h
}

#[derive(Clone, Debug, Serialize, Deserialize)]
pub struct FoundViolation {
    pub violation: Violation,
    pub case: Value,
    pub label: String,
    pub known: Option<String>,
}

#[derive(Debug, Serialize, Deserialize, Default)]
pub struct ShardResult {
    pub property: String,
    pub profile: String,
    pub shard: usize,
    pub evaluations: u64,
    pub cases: u64,
    pub nontrivial_hashes: Vec<u64>,
    pub classes: BTreeMap<String, u64>,
    pub samples: Vec<Value>,
    pub found: Vec<FoundViolation>,
    pub excluded_known: BTreeMap<String, u64>,
    /// development aid (DVCHECK_SAVE_KNOWN): first case per (finding id, facts) of excluded violations
    #[serde(default)]
    pub known_samples: BTreeMap<String, Value>,
    pub harness_errors: Vec<String>,
    pub wall_s: f64,
}

pub struct Ctx {
    pub property: String,
    pub profile: String,
    pub tier: Tier,
    pub seed: u64,
    pub shard: usize,
    pub nshards: usize,
    pub strict: bool,
    pub known: KnownFindings,
    pub res: ShardResult,
    nontrivial: BTreeSet<u64>,
    max_samples: usize,
    pub max_shrink_iters: u32,
}

// ---- panic capture -------------------------------------------------------------------------

thread_local! {
    static LAST_PANIC: RefCell<Option<(String, String)>> = const { RefCell::new(None) };
}

static CURRENT_CASE: OnceLock<Mutex<Option<(Instant, String)>>> = OnceLock::new();

pub fn current_case_slot() -> &'static Mutex<Option<(Instant, String)>> {
    CURRENT_CASE.get_or_init(|| Mutex::new(None))
}

pub fn install_panic_hook() {
    std::panic::set_hook(Box::new(|info| {
        let loc = info.location().map_or("<unknown>".to_string(), |l| format!("{}:{}", l.file(), l.line()));
        let msg = if let Some(s) = info.payload().downcast_ref::<&str>() {
            s.to_string()
        } else if let Some(s) = info.payload().downcast_ref::<String>() {
            s.clone()
        } else {
            "<non-string panic>".to_string()
        };
        LAST_PANIC.with(|p| *p.borrow_mut() = Some((loc, msg)));
    }));
}

pub fn take_last_panic() -> Option<(String, String)> {
    LAST_PANIC.with(|p| p.borrow_mut().take())
}

/// Run `f`, converting a panic into Err((location, message)).
pub fn guarded<T>(f: impl FnOnce() -> T) -> Result<T, (String, String)> {
    let r = std::panic::catch_unwind(std::panic::AssertUnwindSafe(f));
    match r {
        Ok(v) => Ok(v),
        Err(_) => Err(take_last_panic().unwrap_or(("<unknown>".into(), "<panic>".into()))),
    }
}

pub fn panic_is_harness(loc: &str) -> bool {
    loc.contains("/verif/harness/") || loc.starts_with("src/") && !loc.contains("/repo/")
}

/// Shorten a panic location to a stable site string (file:line inside the library).
pub fn panic_site(loc: &str) -> String {
    if let Some(i) = loc.find("/repo/") {
        loc[i + 6..].to_string()
    } else if let Some(i) = loc.find("/registry/src/") {
        let rest = &loc[i + 14..];
        rest.splitn(2, '/').nth(1).unwrap_or(rest).to_string()
    } else {
        loc.to_string()
    }
}

impl Ctx {
    pub fn new(property: &str, profile: &str, tier: Tier, seed: u64, shard: usize, nshards: usize, known: KnownFindings) -> Self {
        Ctx {
            property: property.into(),
            profile: profile.into(),
            tier,
            seed,
            shard,
            nshards,
            strict: false,
            known,
            res: ShardResult { property: property.into(), profile: profile.into(), shard, ..Default::default() },
            nontrivial: BTreeSet::new(),
            max_samples: 4,
            max_shrink_iters: 200,
        }
    }

    pub fn nontrivial_hashes(&self) -> Vec<u64> {
        self.nontrivial.iter().copied().collect()
    }

    pub fn is_relchk(&self) -> bool {
        cfg!(debug_assertions)
    }

    /// number of cases for this shard given a whole-run budget
    pub fn share(&self, total: u32) -> u32 {
        let n = self.nshards.max(1) as u32;
        // development aid only: DVCHECK_SCALE scales every budget (registered commands never set it)
        let total = match std::env::var("DVCHECK_SCALE").ok().and_then(|s| s.parse::<f64>().ok()) {
            Some(f) => ((total as f64) * f).ceil() as u32,
            None => total,
        };
        let base = total / n;
        let extra = if (self.shard as u32) < total % n { 1 } else { 0 };
        base + extra
    }

    pub fn sub_seed(&self, label: &str) -> u64 {
        mix_seed(&[self.seed, str_seed(&self.property), str_seed(&self.profile), self.shard as u64, str_seed(label)])
    }

    fn absorb(&mut self, label: &str, log: CaseLog, case_json: &dyn Fn() -> Value) {
        self.res.cases += 1;
        self.res.evaluations += log.evals.max(1);
        for c in log.classes {
            *self.res.classes.entry(c).or_default() += 1;
        }
        if let Some(h) = log.nontrivial {
            if self.nontrivial.insert(h) && self.res.samples.len() < self.max_samples {
                let s = log.sample.unwrap_or_else(|| case_json());
                self.res.samples.push(json!({"label": label, "case": s}));
            }
        }
    }

    /// Classify the violations of a case: returns the first *unknown* one (known ones are counted).
    fn triage(&mut self, vs: &[Violation], count: bool) -> Option<Violation> {
        self.triage_case(vs, count, None)
    }

    fn triage_case(&mut self, vs: &[Violation], count: bool, case: Option<&dyn Fn() -> Value>) -> Option<Violation> {
        let mut unknown = None;
        for v in vs {
            match self.known.matches(v) {
                Some(id) if !self.strict => {
                    if count {
                        if let (Some(cf), true) = (case, std::env::var_os("DVCHECK_SAVE_KNOWN").is_some()) {
                            let key = format!("{}|{}", id, serde_json::to_string(&v.facts).unwrap_or_default());
                            if !self.res.known_samples.contains_key(&key) && self.res.known_samples.len() < 64 {
                                self.res.known_samples.insert(key, json!({"case": cf(), "violation": v}));
                            }
                        }
                        *self.res.excluded_known.entry(id).or_default() += 1;
                    }
                }
                _ => {
                    if unknown.is_none() {
                        unknown = Some(v.clone());
                    }
                }
            }
        }
        unknown
    }

    /// Execute one concrete case outside proptest (replay / enumerations).
    pub fn run_one<C: Serialize>(&mut self, label: &str, case: &C, exec: &dyn Fn(&C, &mut CaseLog)) -> Option<Violation> {
        let mut log = CaseLog::default();
        let prop = self.property.clone();
        *current_case_slot().lock().unwrap() = Some((Instant::now(), json!({"label": label, "case": case}).to_string()));
        let r = guarded(|| exec(case, &mut log));
        *current_case_slot().lock().unwrap() = None;
        if let Err((loc, msg)) = r {
            if panic_is_harness(&loc) {
                self.res.harness_errors.push(format!("harness panic at {loc}: {msg}"));
            } else {
                log.violations.push(
                    Violation::new(&prop, "panic", &panic_site(&loc), format!("panic at {loc}: {msg}")).fact("profile", self.profile.clone()),
                );
            }
        }
        let vs = std::mem::take(&mut log.violations);
        let unknown = self.triage(&vs, true);
        let cj = serde_json::to_value(case).unwrap_or(Value::Null);
        self.absorb(label, log, &|| cj.clone());
        if let Some(v) = &unknown {
            self.res.found.push(FoundViolation { violation: v.clone(), case: cj, label: label.into(), known: None });
        }
        unknown
    }

    /// Drive `cases` generated cases through `exec`; on the first unknown violation shrink it,
    /// record the minimal case and stop this label.
    pub fn run_cases<S>(&mut self, label: &str, cases: u32, strategy: S, exec: &dyn Fn(&S::Value, &mut CaseLog))
    where
        S: Strategy,
        S::Value: Serialize + Clone + std::fmt::Debug,
    {
        if cases == 0 {
            return;
        }
        let cfg = Config {
            cases,
            failure_persistence: None,
            rng_seed: RngSeed::Fixed(self.sub_seed(label)),
            max_shrink_iters: self.max_shrink_iters,
            max_global_rejects: 65536,
            max_local_rejects: 65536,
            verbose: 0,
            ..Config::default()
        };
        let mut runner = TestRunner::new(cfg);
        let prop = self.property.clone();
        let profile = self.profile.clone();
        let failed = Cell::new(false);
        let this = RefCell::new(&mut *self);
        let last_violation: RefCell<Option<Violation>> = RefCell::new(None);
        let result = runner.run(&strategy, |case| {
            let mut log = CaseLog::default();
            *current_case_slot().lock().unwrap() = Some((Instant::now(), json!({"label": label, "case": &case}).to_string()));
            let r = guarded(|| exec(&case, &mut log));
            *current_case_slot().lock().unwrap() = None;
            let mut me = this.borrow_mut();
            if let Err((loc, msg)) = r {
                if panic_is_harness(&loc) {
                    if me.res.harness_errors.len() < 8 {
                        me.res.harness_errors.push(format!("harness panic at {loc}: {msg} case={}", serde_json::to_string(&case).unwrap_or_default()));
                    }
                    return Ok(());
                }
                log.violations.push(Violation::new(&prop, "panic", &panic_site(&loc), format!("panic at {loc}: {msg}")).fact("profile", profile.clone()));
            }
            let vs = std::mem::take(&mut log.violations);
            let shrinking = failed.get();
            let c3 = case.clone();
            let unknown = me.triage_case(&vs, !shrinking, Some(&|| serde_json::to_value(&c3).unwrap_or(Value::Null)));
            if !shrinking {
                let c2 = case.clone();
                me.absorb(label, log, &|| serde_json::to_value(&c2).unwrap_or(Value::Null));
            }
            match unknown {
                None => Ok(()),
                Some(v) => {
                    failed.set(true);
                    let m = v.message.clone();
                    *last_violation.borrow_mut() = Some(v);
                    Err(TestCaseError::fail(m))
                }
            }
        });
        drop(this);
        match result {
            Ok(()) => {}
            Err(TestError::Fail(_, minimal)) => {
                // re-execute the minimal case to get its exact violation
                let mut log = CaseLog::default();
                let r = guarded(|| exec(&minimal, &mut log));
                if let Err((loc, msg)) = r {
                    if !panic_is_harness(&loc) {
                        log.violations.push(Violation::new(&prop, "panic", &panic_site(&loc), format!("panic at {loc}: {msg}")).fact("profile", profile.clone()));
                    }
                }
                let vs = std::mem::take(&mut log.violations);
                let v = self.triage(&vs, false).or_else(|| last_violation.borrow().clone());
                if let Some(v) = v {
                    self.res.found.push(FoundViolation {
                        violation: v,
                        case: serde_json::to_value(&minimal).unwrap_or(Value::Null),
                        label: label.into(),
                        known: None,
                    });
                }
            }
            Err(TestError::Abort(reason)) => {
                self.res.harness_errors.push(format!("proptest aborted in {label}: {reason}"));
            }
        }
        self.publish_partial();
    }

    /// Keep a serialised copy of the results so far: the watchdog thread writes it out if a later
    /// case never returns, so the work already done is not lost from the evidence.
    pub fn publish_partial(&mut self) {
        self.res.nontrivial_hashes = self.nontrivial.iter().copied().collect();
        if let Ok(bytes) = serde_json::to_vec(&self.res) {
            *partial_result_slot().lock().unwrap() = Some(bytes);
        }
        self.res.nontrivial_hashes.clear();
    }
}

pub fn partial_result_slot() -> &'static Mutex<Option<Vec<u8>>> {
    static SLOT: Mutex<Option<Vec<u8>>> = Mutex::new(None);
    &SLOT
}
