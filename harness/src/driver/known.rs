//! Known findings: committed list, never written at run time.

use super::ctx::Violation;
use serde::{Deserialize, Serialize};
use serde_json::Value;
use std::collections::BTreeMap;

#[derive(Clone, Debug, Serialize, Deserialize)]
pub struct Finding {
    pub id: String,
    pub property: String,
    pub kind: String,
    pub site: String,
    #[serde(default, rename = "where")]
    pub where_: BTreeMap<String, Value>,
    #[serde(default)]
    pub replay: Option<String>,
    pub what: String,
    pub status: String,
    #[serde(default)]
    pub commit: Option<String>,
}

#[derive(Clone, Debug, Default, Serialize, Deserialize)]
pub struct KnownFindings {
    #[serde(default)]
    pub findings: Vec<Finding>,
}

impl KnownFindings {
    pub fn load(path: &std::path::Path) -> Self {
        match std::fs::read_to_string(path) {
            Ok(s) => serde_json::from_str(&s).unwrap_or_else(|e| panic!("known_findings.json invalid: {e}")),
            Err(_) => KnownFindings::default(),
        }
    }
    pub fn for_property(&self, p: &str) -> Vec<&Finding> {
        self.findings.iter().filter(|f| f.property == p).collect()
    }
    /// id of the open finding this violation is an instance of
    pub fn matches(&self, v: &Violation) -> Option<String> {
        for f in &self.findings {
            if f.status != "open" || f.property != v.property || f.kind != v.kind || !f.site.split('|').any(|x| x == v.site) {
                continue;
            }
            if f.where_.iter().all(|(k, val)| v.facts.get(k) == Some(val)) {
                return Some(f.id.clone());
            }
        }
        None
    }
}
