//! C07 — bistellar flips are manifold-preserving, exactly invertible edits.

use crate::dispatch_kd;
use crate::driver::ctx::{hash_of, CaseLog, Ctx, Tier, Violation};
use crate::gen::history::{op_strategy, start_strategy, start_world, FlipSummary, Op, OpMix, Outcome, Start, World};
use crate::gen::world::Kern;
use crate::oracle::levels::{check, Opts};
use crate::oracle::snap::Snap;
use proptest::prelude::*;
use serde::{Deserialize, Serialize};
use serde_json::Value;
use std::collections::{BTreeMap, BTreeSet};

pub const ID: &str = "C07";

#[derive(Debug, Clone, Serialize, Deserialize)]
pub struct Case {
    pub dim: usize,
    pub robust: bool,
    pub salt: u64,
    pub start: Start,
    /// random flip sequence applied first (successful flips change the state)
    pub ops: Vec<Op>,
    /// then: try every handle of the resulting state (each on a clone) with do/undo
    pub exhaustive_handles: bool,
}

#[derive(Debug, Clone, PartialEq, Eq)]
struct Profile {
    vertex_uuids: BTreeSet<u128>,
    cells: BTreeSet<Vec<u128>>,
    boundary_facets: BTreeSet<Vec<u128>>,
    l12_ok: bool,
    l12_first: String,
    facet_degree_ok: bool,
    boundary_closed: bool,
    connected: bool,
    chi: i64,
}

fn profile(s: &Snap) -> Profile {
    let rep = check(s, Opts::structural_only());
    let key_uuid: BTreeMap<u64, u128> = s.verts.iter().map(|v| (v.key, v.uuid)).collect();
    let tuple = |ks: &[u64]| -> Vec<u128> {
        let mut t: Vec<u128> = ks.iter().map(|k| *key_uuid.get(k).unwrap_or(&0)).collect();
        t.sort_unstable();
        t
    };
    let cells: BTreeSet<Vec<u128>> = s.cells.iter().map(|c| tuple(&c.verts)).collect();
    let mut facet_count: BTreeMap<Vec<u128>, usize> = BTreeMap::new();
    for c in &s.cells {
        for i in 0..c.verts.len() {
            let f: Vec<u64> = c.verts.iter().enumerate().filter(|(j, _)| *j != i).map(|(_, &k)| k).collect();
            *facet_count.entry(tuple(&f)).or_default() += 1;
        }
    }
    let l12: Vec<&crate::oracle::levels::Issue> = rep.issues.iter().filter(|i| i.level <= 2).collect();
    Profile {
        vertex_uuids: s.verts.iter().map(|v| v.uuid).collect(),
        cells,
        boundary_facets: facet_count.iter().filter(|(_, &n)| n == 1).map(|(f, _)| f.clone()).collect(),
        l12_ok: l12.is_empty(),
        l12_first: l12.first().map_or(String::new(), |i| format!("L{} {}: {}", i.level, i.kind, i.detail)),
        facet_degree_ok: !rep.has("facet_degree"),
        boundary_closed: !rep.has("boundary_not_closed"),
        connected: !rep.has("disconnected"),
        chi: rep.chi,
    }
}

fn uuid_of(s: &Snap, key: u64) -> u128 {
    s.verts.iter().find(|v| v.key == key).map_or(0, |v| v.uuid)
}

/// Check one successful flip: `before`/`after` snapshots and the reported FlipInfo.
fn check_flip<const D: usize>(before: &Snap, after: &Snap, f: &FlipSummary, desc: &str, kernel: &str, log: &mut CaseLog) -> bool {
    let pb = profile(before);
    let pa = profile(after);
    let site = match (f.k, f.inverse) {
        (1, false) => "flip_k1_insert",
        (1, true) => "flip_k1_remove",
        (2, false) => "flip_k2",
        (2, true) => "flip_k2_inverse_from_edge",
        (3, false) => "flip_k3",
        _ => "flip_k3_inverse_from_triangle",
    };
    let mut ok = true;
    let mut bad = |kind: &str, msg: String, log: &mut CaseLog| {
        log.violate(Violation::new(ID, kind, site, format!("{desc}: {msg}")).fact("dim", D as u64).fact("kernel", kernel).fact("pre_l12_ok", pb.l12_ok));
    };
    if !pb.l12_ok {
        return true; // pre-state not structurally valid: nothing is demanded of the flip
    }
    if !pa.l12_ok {
        bad("structure_broken", format!("element/structural level broken after a successful flip: {}", pa.l12_first), log);
        ok = false;
    }
    if pb.facet_degree_ok && !pa.facet_degree_ok {
        bad("facet_degree_broken", "a facet is shared by more than two cells after the flip".into(), log);
        ok = false;
    }
    if pb.boundary_closed && !pa.boundary_closed {
        bad("boundary_opened", "the boundary is no longer closed after the flip".into(), log);
        ok = false;
    }
    if pb.connected && !pa.connected {
        bad("disconnected", "the cell graph became disconnected".into(), log);
        ok = false;
    }
    if pb.chi != pa.chi && !(f.k == 1) {
        bad("euler_changed", format!("Euler characteristic changed {} -> {}", pb.chi, pa.chi), log);
        ok = false;
    }
    if f.k == 1 && pb.chi != pa.chi {
        bad("euler_changed", format!("Euler characteristic changed {} -> {} across a k=1 move", pb.chi, pa.chi), log);
        ok = false;
    }
    // vertex set / boundary facet set
    if f.k >= 2 {
        if pb.vertex_uuids != pa.vertex_uuids {
            bad("vertex_set_changed", "the vertex set changed across a k>=2 flip".into(), log);
            ok = false;
        }
        if pb.boundary_facets != pa.boundary_facets {
            bad("boundary_facets_changed", "the set of boundary facets changed across a k>=2 flip".into(), log);
            ok = false;
        }
    } else {
        let delta = pa.vertex_uuids.len() as i64 - pb.vertex_uuids.len() as i64;
        let want = if f.inverse { -1 } else { 1 };
        if delta != want {
            bad("vertex_count", format!("k=1 move changed the vertex count by {delta} (expected {want})"), log);
            ok = false;
        }
    }
    // cell count: a k-move replaces k cells by D+2-k; inverse handles perform the (D+2-k)-move
    let k_eff = if f.inverse { D + 2 - f.k } else { f.k };
    let want_delta = (D as i64 + 2 - k_eff as i64) - k_eff as i64;
    let delta = after.cells.len() as i64 - before.cells.len() as i64;
    if delta != want_delta {
        bad("cell_count", format!("cell count changed by {delta}, the move type prescribes {want_delta}"), log);
        ok = false;
    }
    // FlipInfo describes precisely the removed and created cells
    let bkeys: BTreeSet<u64> = before.cells.iter().map(|c| c.key).collect();
    let akeys: BTreeSet<u64> = after.cells.iter().map(|c| c.key).collect();
    let gone: BTreeSet<u64> = bkeys.difference(&akeys).copied().collect();
    let born: BTreeSet<u64> = akeys.difference(&bkeys).copied().collect();
    let rep_removed: BTreeSet<u64> = f.removed_cells.iter().copied().collect();
    let rep_new: BTreeSet<u64> = f.new_cells.iter().copied().collect();
    if rep_removed != gone {
        bad("info_removed_cells", format!("FlipInfo.removed_cells {:x?} but the cells that disappeared are {:x?}", rep_removed, gone), log);
        ok = false;
    }
    if rep_new != born {
        bad("info_new_cells", format!("FlipInfo.new_cells {:x?} but the cells that appeared are {:x?}", rep_new, born), log);
        ok = false;
    }
    // vertex sets of the created cells: inserted_face ∪ (removed_face \ {v}); of the removed: removed_face ∪ (inserted_face \ {v})
    let ins: Vec<u128> = f.inserted_face.iter().map(|&k| if f.k == 1 && f.inverse { uuid_of(before, k) } else { uuid_of(after, k) }).collect();
    let rem: Vec<u128> = f.removed_face.iter().map(|&k| uuid_of(before, k)).collect();
    let mk_cells = |keep: &[u128], drop_from: &[u128]| -> BTreeSet<Vec<u128>> {
        drop_from
            .iter()
            .map(|d| {
                let mut c: Vec<u128> = keep.iter().copied().chain(drop_from.iter().copied().filter(|x| x != d)).collect();
                c.sort_unstable();
                c
            })
            .collect()
    };
    if !ins.contains(&0) && !rem.contains(&0) {
        let want_new = mk_cells(&ins, &rem);
        let want_old = mk_cells(&rem, &ins);
        let got_new: BTreeSet<Vec<u128>> = pa.cells.difference(&pb.cells).cloned().collect();
        let got_old: BTreeSet<Vec<u128>> = pb.cells.difference(&pa.cells).cloned().collect();
        if got_new != want_new {
            bad("new_cells_wrong", format!("created cells are not inserted_face ∪ (removed_face \\ {{v}}): {} created, {} expected", got_new.len(), want_new.len()), log);
            ok = false;
        }
        if got_old != want_old {
            bad("removed_cells_wrong", format!("removed cells are not removed_face ∪ (inserted_face \\ {{v}}): {} removed, {} expected", got_old.len(), want_old.len()), log);
            ok = false;
        }
    }
    ok
}

/// The operation that undoes a successful flip (None when the public API offers none).
fn inverse_op<K: Kern<D>, const D: usize>(w: &World<K, D>, before: &Snap, after: &Snap, f: &FlipSummary) -> Option<InvAction> {
    match (f.k, f.inverse) {
        (1, false) => Some(InvAction::K1Remove(f.inserted_face[0])),
        (1, true) => {
            // re-insert the removed vertex into the (single) new cell
            let v = before.verts.iter().find(|v| v.key == f.removed_face[0])?;
            Some(InvAction::K1Insert(*f.new_cells.first()?, v.coords.clone(), v.uuid, v.data))
        }
        _ => {
            // general: the inverse of the move that created face I is the move on I
            let face = &f.inserted_face;
            match face.len() {
                1 => Some(InvAction::K1Remove(face[0])),
                n if n == D => {
                    // a facet: flip_k2 on it; find a new cell containing it and the opposite index
                    let c = after.cells.iter().find(|c| face.iter().all(|k| c.verts.contains(k)))?;
                    let idx = c.verts.iter().position(|k| !face.contains(k))?;
                    Some(InvAction::K2(c.key, idx as u8))
                }
                2 => Some(InvAction::K2Inv(face[0], face[1])),
                3 if D >= 4 => Some(InvAction::K3Inv(face[0], face[1], face[2])),
                n if n + 1 == D => {
                    // a ridge: flip_k3 on it
                    let c = after.cells.iter().find(|c| face.iter().all(|k| c.verts.contains(k)))?;
                    let om: Vec<usize> = c.verts.iter().enumerate().filter(|(_, k)| !face.contains(k)).map(|(i, _)| i).collect();
                    if om.len() == 2 {
                        Some(InvAction::K3(c.key, om[0] as u8, om[1] as u8))
                    } else {
                        None
                    }
                }
                n if n == D + 1 => {
                    // a whole cell was created by an inverse k=1: undone by k=1 insert (handled above)
                    let _ = w;
                    None
                }
                _ => None,
            }
        }
    }
}

enum InvAction {
    K1Remove(u64),
    K1Insert(u64, Vec<f64>, u128, Option<i64>),
    K2(u64, u8),
    K3(u64, u8, u8),
    K2Inv(u64, u64),
    K3Inv(u64, u64, u64),
}

fn apply_inverse<K: Kern<D>, const D: usize>(w: &mut World<K, D>, a: &InvAction) -> Result<(), String> {
    use crate::gen::world::mk_vertex;
    use crate::oracle::snap::{ckey_from_u64, vkey_from_u64};
    use delaunay::core::algorithms::flips::{RidgeHandle, TriangleHandle};
    use delaunay::core::edge::EdgeKey;
    use delaunay::core::facet::FacetHandle;
    use delaunay::triangulation::flips::BistellarFlips;
    let r = match a {
        InvAction::K1Remove(v) => w.dt.flip_k1_remove(vkey_from_u64(*v)).map(|_| ()),
        InvAction::K1Insert(c, coords, uuid, data) => w.dt.flip_k1_insert(ckey_from_u64(*c), mk_vertex::<i32, D>(coords, uuid::Uuid::from_u128(*uuid), *data)).map(|_| ()),
        InvAction::K2(c, i) => w.dt.flip_k2(FacetHandle::new(ckey_from_u64(*c), *i)).map(|_| ()),
        InvAction::K3(c, a, b) => w.dt.flip_k3(RidgeHandle::new(ckey_from_u64(*c), *a, *b)).map(|_| ()),
        InvAction::K2Inv(a, b) => w.dt.flip_k2_inverse_from_edge(EdgeKey::new(vkey_from_u64(*a), vkey_from_u64(*b))).map(|_| ()),
        InvAction::K3Inv(a, b, c) => w.dt.flip_k3_inverse_from_triangle(TriangleHandle::new(vkey_from_u64(*a), vkey_from_u64(*b), vkey_from_u64(*c))).map(|_| ()),
    };
    r.map_err(|e| e.to_string())
}

/// Do the flip on a clone, check it, undo it, check the restoration.
fn do_undo<K: Kern<D>, const D: usize>(w: &World<K, D>, before: &Snap, op: &Op, log: &mut CaseLog, counts: &mut (u64, u64)) {
    let mut c: World<K, D> = World::new(w.dt.clone(), w.salt, w.next_id + 77);
    let (res, out) = c.apply(before, op);
    log.evals += 1;
    let Outcome::Flip(f) = out else { return };
    counts.0 += 1;
    let after = c.snap();
    if !check_flip::<D>(before, &after, &f, &res.desc, K::NAME, log) {
        return;
    }
    let pb = profile(before);
    if !pb.l12_ok {
        return;
    }
    if let Some(inv) = inverse_op(&c, before, &after, &f) {
        match apply_inverse(&mut c, &inv) {
            Ok(()) => {
                counts.1 += 1;
                let restored = profile(&c.snap());
                if restored.cells != pb.cells || restored.vertex_uuids != pb.vertex_uuids {
                    log.violate(
                        Violation::new(ID, "inverse_does_not_restore", "inverse", format!("{}: applying the inverse move to the created face did not restore the original set of cells ({} cells before, {} after undo)", res.desc, pb.cells.len(), restored.cells.len()))
                            .fact("dim", D as u64)
                            .fact("k", f.k as u64)
                            .fact("inverse_handle", f.inverse),
                    );
                }
            }
            Err(e) => {
                // The inverse move may be legitimately refused (e.g. it would create a degenerate or
                // duplicate cell in the embedding); the property only speaks about applying it.
                let short: String = e.chars().take(60).collect();
                log.class(format!("inverse_refused:k{}{}:D{}:{}", f.k, if f.inverse { "inv" } else { "" }, D, short));
            }
        }
    }
}

fn all_handles<K: Kern<D>, const D: usize>(w: &World<K, D>, before: &Snap, log: &mut CaseLog, counts: &mut (u64, u64)) {
    {
        let nc = before.cells.len();
        let nv = before.verts.len();
        let sel = |i: usize, n: usize| -> u16 { (((i as u64) << 16) / n as u64 + 1).min(0xFEFF) as u16 };
        // every cell x facet, every cell x ridge
        for ci in 0..nc.min(40) {
            for fi in 0..=D as u8 {
                do_undo(w, &before, &Op::FlipK2 { cell: sel(ci, nc), facet: fi }, log, counts);
                for fj in fi + 1..=D as u8 {
                    do_undo(w, &before, &Op::FlipK3 { cell: sel(ci, nc), a: fi, b: fj }, log, counts);
                }
            }
            do_undo(w, &before, &Op::FlipK1Insert { cell: sel(ci, nc), w: vec![1; D + 1], uuid: Default::default() }, log, counts);
            if !log.violations.is_empty() {
                return;
            }
        }
        // every vertex; every real edge plus some non-edges; every real triangle (D >= 4) plus some non-faces
        let pos: std::collections::HashMap<u64, usize> = before.verts.iter().enumerate().map(|(i, v)| (v.key, i)).collect();
        let mut real_edges: BTreeSet<(usize, usize)> = BTreeSet::new();
        let mut real_tris: BTreeSet<(usize, usize, usize)> = BTreeSet::new();
        for c in &before.cells {
            let mut ix: Vec<usize> = c.verts.iter().filter_map(|k| pos.get(k).copied()).collect();
            ix.sort_unstable();
            for a in 0..ix.len() {
                for b in a + 1..ix.len() {
                    real_edges.insert((ix[a], ix[b]));
                    if D >= 4 {
                        for c3 in b + 1..ix.len() {
                            real_tris.insert((ix[a], ix[b], ix[c3]));
                        }
                    }
                }
            }
        }
        // selector that resolves exactly to index i of n
        let exact = |i: usize, n: usize| -> u16 { ((((i as u64) << 16) + (n as u64) - 1) / n as u64).min(0xFEFF) as u16 };
        for vi in 0..nv.min(40) {
            do_undo(w, &before, &Op::FlipK1Remove { v: exact(vi, nv) }, log, counts);
        }
        for &(a, b) in real_edges.iter().take(400) {
            do_undo(w, &before, &Op::FlipK2Inv { a: exact(a, nv), b: exact(b, nv) }, log, counts);
            if !log.violations.is_empty() {
                return;
            }
        }
        for &(a, b, c3) in real_tris.iter().take(600) {
            do_undo(w, &before, &Op::FlipK3Inv { a: exact(a, nv), b: exact(b, nv), c: exact(c3, nv) }, log, counts);
            if !log.violations.is_empty() {
                return;
            }
        }
        // a few non-edges / non-faces
        for vi in 0..nv.min(6) {
            for vj in vi + 1..nv.min(6) {
                if !real_edges.contains(&(vi, vj)) {
                    do_undo(w, &before, &Op::FlipK2Inv { a: exact(vi, nv), b: exact(vj, nv) }, log, counts);
                }
            }
        }
        if D >= 4 && nv >= 3 {
            do_undo(w, &before, &Op::FlipK3Inv { a: exact(0, nv), b: exact(nv / 2, nv), c: exact(nv - 1, nv) }, log, counts);
        }
        // adversarial handles
        for op in [Op::FlipK2 { cell: 0xFF00, facet: 0 }, Op::FlipK2 { cell: 0, facet: 255 }, Op::FlipK3 { cell: 0, a: 1, b: 1 }, Op::FlipK3 { cell: 0xFF01, a: 0, b: 1 }, Op::FlipK1Remove { v: 0xFF00 }, Op::FlipK2Inv { a: 0, b: 0 }, Op::FlipK1Insert { cell: 0xFF03, w: vec![1; D + 1], uuid: Default::default() }] {
            do_undo(w, &before, &op, log, counts);
        }
    }
}

fn run<K: Kern<D>, const D: usize>(case: &Case, log: &mut CaseLog) {
    log.class(format!("D{D}"));
    let Some(mut w) = start_world::<K, D>(&case.start, case.salt) else {
        log.class("start:construction_err");
        return;
    };
    let mut before = w.snap();
    let mut successes = 0usize;
    let mut counts = (0u64, 0u64);
    for op in &case.ops {
        // do/undo on a clone first, then really apply
        do_undo(&w, &before, op, log, &mut counts);
        if !log.violations.is_empty() {
            return;
        }
        let (res, out) = w.apply(&before, op);
        if matches!(out, Outcome::SetPanicked { .. }) {
            break;
        }
        let after = w.snap();
        log.class(format!("op:{}", out.label()));
        if let Outcome::Flip(f) = &out {
            successes += 1;
            if case.exhaustive_handles && successes % 3 == 0 && after.cells.len() <= 60 {
                all_handles(&w, &after, log, &mut counts);
                if !log.violations.is_empty() {
                    return;
                }
            }
            log.class(format!("flip_ok:k{}{}", f.k, if f.inverse { "inv" } else { "" }));
            if !check_flip::<D>(&before, &after, f, &res.desc, K::NAME, log) {
                return;
            }
        }
        before = after;
    }
    if case.exhaustive_handles && !before.cells.is_empty() {
        all_handles(&w, &before, log, &mut counts);
        log.class("exhaustive_handles");
    }
    if counts.0 > 0 {
        log.class("has_successful_flip");
    }
    if counts.1 > 0 {
        log.class("has_successful_undo");
    }
    if counts.0 >= 1 && (successes >= 1 || case.exhaustive_handles) {
        log.nontrivial_hash(hash_of(&serde_json::to_string(case).unwrap_or_default()));
    }
}

pub fn exec(case: &Case, log: &mut CaseLog) {
    if !(2..=5).contains(&case.dim) || case.start.points.iter().any(|p| p.len() != case.dim) {
        return;
    }
    dispatch_kd!(case.dim, case.robust, run, case, log)
}

pub const MIX: OpMix = OpMix { insert: 1, remove: 0, flips: 14, repair: 0, setters: 0, clone: 0, adversarial_uuid: false };

/// Pachner walk: start from a single simplex and apply a long sequence of flips.
pub fn walk_strategy(dim: usize, len: usize) -> BoxedStrategy<Case> {
    let simplex: Vec<Vec<f64>> = (0..=dim).map(|i| (0..dim).map(|j| if i == j + 1 { 1.0 } else { 0.0 }).collect()).collect();
    const WALK: OpMix = OpMix { insert: 0, remove: 0, flips: 1, repair: 0, setters: 0, clone: 0, adversarial_uuid: false };
    (any::<bool>(), any::<u64>(), 0u8..3, proptest::collection::vec(op_strategy(dim, WALK), len / 2..=len))
        .prop_map(move |(robust, salt, g, ops)| Case {
            dim,
            robust,
            salt,
            start: Start { points: simplex.clone(), guarantee: g, validation: None, repair: None, check: None, scale_pow: 0 },
            ops,
            exhaustive_handles: true,
        })
        .boxed()
}

pub fn strategy(dim: usize, max_ops: usize) -> BoxedStrategy<Case> {
    let nmax = match dim {
        2 => 12,
        3 => 10,
        4 => 8,
        _ => 8,
    };
    // a quarter of the k=1 insertions place the new vertex outside the split cell (see gen::history)
    let op = (op_strategy(dim, MIX), 0u8..4, 0u8..6, 0u8..8).prop_map(|(op, outside, i, t)| match op {
        Op::FlipK1Insert { cell, mut w, uuid } if outside == 0 => {
            w.push(i);
            w.push(t);
            Op::FlipK1Insert { cell, w, uuid }
        }
        o => o,
    });
    (any::<bool>(), any::<u64>(), start_strategy(dim, nmax, 0), proptest::collection::vec(op, 0..=max_ops), prop_oneof![2 => Just(true), 1 => Just(false)])
        .prop_map(move |(robust, salt, start, ops, exhaustive_handles)| Case { dim, robust, salt, start, ops, exhaustive_handles })
        .boxed()
}

pub fn run_shard(ctx: &mut Ctx) {
    let thorough = ctx.tier == Tier::Thorough;
    let max_ops = if thorough { 60 } else { 10 };
    for dim in 2..=5usize {
        let total = match (ctx.tier, dim) {
            (Tier::Quick, 2) => 2000,
            (Tier::Quick, 3) => 1600,
            (Tier::Quick, 4) => 800,
            (Tier::Quick, _) => 500,
            (Tier::Thorough, 2) => 10_000,
            (Tier::Thorough, 3) => 8_000,
            (Tier::Thorough, 4) => 4_000,
            (Tier::Thorough, _) => 2_500,
        };
        let n = ctx.share(total);
        ctx.run_cases(&format!("flip_history_d{dim}"), n, strategy(dim, max_ops), &|c, l| exec(c, l));
        let nw = ctx.share(total / 4);
        ctx.run_cases(&format!("pachner_walk_d{dim}"), nw, walk_strategy(dim, if thorough { 120 } else { 40 }), &|c, l| exec(c, l));
    }
}

pub fn replay(_label: &str, case: &Value, ctx: &mut Ctx) -> Option<Violation> {
    let c: Case = serde_json::from_value(case.clone()).ok()?;
    ctx.run_one("replay", &c, &|c, l| exec(c, l))
}

pub fn meta() -> super::Meta {
    super::Meta {
        id: ID,
        level: "exploration",
        rule: "case = batch-constructed start state + a generated sequence of flips of every kind (valid, boundary, stale, forged and out-of-range handles; a quarter of the k=1 insertions place the new vertex outside the split cell, beyond one of its facets, which the combinatorial Edit API accepts) + (2/3 of the cases) every handle of the resulting state: every cell x facet (k=2), cell x ridge (k=3), cell (k=1 insert), vertex (k=1 remove), vertex pair (inverse k=2) and vertex triples for D>=4 (inverse k=3); every attempt is made on a clone, a success is checked (independent L1/L2, facet degrees, closed boundary, connectedness, Euler characteristic, boundary facet set and vertex set for k>=2, prescribed cell-count change, FlipInfo cells and faces) and then undone through the inverse handle and compared with the original cell set; evaluations = flip attempts; non-trivial = case with at least one successful flip; distinct by the whole case",
        assumptions: &[
            "geometric embedding is not demanded of the Edit API (documented: Levels 1-2 only)",
            "an inverse move refused by the library is recorded, not reported (the property speaks of applying the inverse)",
            "state after a failed flip is C03's claim",
        ],
        exhaustive: false,
        max_shards: 8,
    }
}
