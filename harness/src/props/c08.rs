//! C08 — flip-based repair returns a Delaunay triangulation of the same vertices.

use crate::dispatch_kd;
use crate::driver::ctx::{hash_of, CaseLog, Ctx, Tier, Violation};
use crate::gen::history::{op_strategy, start_strategy, start_world, vertex_model, Op, OpMix, Outcome, Start, World};
use crate::gen::world::{guarantee_of, Kern};
use crate::oracle::certify::{certify, CertOpts};
use crate::oracle::fingerprint::diff;
use crate::oracle::levels::Opts;
use delaunay::core::operations::TopologicalOperation;
use proptest::prelude::*;
use serde::{Deserialize, Serialize};
use serde_json::Value;

pub const ID: &str = "C08";

#[derive(Debug, Clone, Serialize, Deserialize)]
pub struct Case {
    pub dim: usize,
    pub robust: bool,
    pub salt: u64,
    pub start: Start,
    /// perturbing operations (flips, removals, insertions; automatic repair is switched off)
    pub ops: Vec<Op>,
    /// the repair call under test
    pub repair: Op,
}

fn run<K: Kern<D>, const D: usize>(case: &Case, log: &mut CaseLog) {
    log.class(format!("D{D}"));
    log.class(format!("kernel:{}", K::NAME));
    let mut start = case.start.clone();
    start.repair = Some(0); // DelaunayRepairPolicy::Never while perturbing
    let Some(mut w) = start_world::<K, D>(&start, case.salt) else {
        log.class("start:construction_err");
        return;
    };
    let mut before = w.snap();
    let mut legal = 0usize;
    for op in &case.ops {
        let (_res, out) = w.apply(&before, op);
        if matches!(out, Outcome::SetPanicked { .. }) {
            return;
        }
        if !out.is_failure() && !matches!(out, Outcome::Set | Outcome::Noop) {
            legal += 1;
        }
        before = w.snap();
    }
    if before.cells.is_empty() || !before.all_finite() {
        log.class("pre:no_cells");
        return;
    }
    // pre-state must be a valid, embedded, convex triangulation
    let g = guarantee_of(w.dt.topology_guarantee());
    let pre = certify(&before, &CertOpts { levels: Opts::euclid(g, true), delaunay: true, convex: true, coverage: false, reference: false });
    if !pre.levels.ok_upto(3) || pre.levels.orient_in_band > 0 || !pre.convex_decidable.is_empty() || pre.convex_in_band > 0 {
        log.class("pre:not_valid_convex(skipped)");
        return;
    }
    let pre_violations = pre.delaunay.as_ref().map_or(0, |d| d.decidable().len());
    log.class(if pre_violations > 0 { "pre:non_delaunay" } else { "pre:delaunay" });
    let admissible = TopologicalOperation::FacetFlip.is_admissible_under(w.dt.topology_guarantee());
    let fp_before = w.fingerprint(&before);
    let mb = vertex_model(&before);
    let (res, out) = w.apply(&before, &case.repair);
    let after = w.snap();
    log.evals += 1;
    let mk = |kind: &str, msg: String| {
        Violation::new(ID, kind, if matches!(case.repair, Op::Repair) { "repair_delaunay_with_flips" } else { "repair_delaunay_with_flips_advanced" }, format!("{}: {msg}", res.desc))
            .fact("dim", D as u64)
            .fact("kernel", K::NAME)
            .fact("guarantee", format!("{:?}", w.dt.topology_guarantee()))
            .fact("pre_violations", pre_violations > 0)
    };
    match &out {
        Outcome::Repaired { flips, heuristic } => {
            log.class(format!("repair:Ok{}", if *heuristic { ":heuristic" } else { "" }));
            if !admissible {
                log.violate(mk("repair_ran_without_admissible_flips", "repair reported success although the topology guarantee does not admit facet flips".into()));
            }
            // same vertices
            let ma = vertex_model(&after);
            let same_ids = ma.keys().eq(mb.keys());
            if !same_ids {
                log.violate(mk("vertex_set_changed", format!("repair changed the vertex set ({} -> {} vertices)", mb.len(), ma.len())));
            } else if !*heuristic {
                if ma != mb {
                    log.violate(mk("vertex_changed", "a vertex's coordinates or data changed during a flip-only repair".into()));
                }
            } else {
                // heuristic rebuild may perturb coordinates within the documented bound; data must survive
                for (u, (c0, d0)) in &mb {
                    let (c1, d1) = &ma[u];
                    if d0 != d1 {
                        log.violate(mk("vertex_data_changed", format!("vertex {:032x} data changed across a heuristic rebuild", u)));
                    }
                    let p0: Vec<f64> = c0.iter().map(|b| f64::from_bits(*b)).collect();
                    let p1: Vec<f64> = c1.iter().map(|b| f64::from_bits(*b)).collect();
                    let extent = before.verts.iter().flat_map(|v| v.coords.iter()).fold(0.0f64, |m, x| m.max(x.abs())).max(1e-15) * 2.0 * (D as f64).sqrt();
                    for (j, (a, b)) in p1.iter().zip(&p0).enumerate() {
                        if (a - b).abs() > 1e-8 * (j as f64 + 1.0) * extent * 1.001 {
                            log.violate(mk("vertex_displaced_beyond_perturbation", format!("vertex {:032x} coordinate {j} moved from {b:e} to {a:e} during the heuristic rebuild", u)));
                        }
                    }
                }
                if ma != mb {
                    log.class("heuristic_rebuild_perturbed_vertices");
                }
            }
            // levels + Delaunay + reference
            let post = certify(&after, &CertOpts { levels: Opts::euclid(guarantee_of(w.dt.topology_guarantee()), true), delaunay: true, convex: true, coverage: false, reference: true });
            if let Some(i) = post.levels.issues.first() {
                match w.dt.as_triangulation().validate() {
                    Err(e) => log.violate(mk("repair_result_fails_own_validate", format!("repair reported success but the library's own Triangulation::validate() rejects the result: {e}; independent oracle: L{} {}: {}", i.level, i.kind, i.detail)).fact("oracle_kind", format!("L{}_{}", i.level, i.kind))),
                    Ok(()) => log.violate(mk(&format!("L{}_{}", i.level, i.kind), format!("after a successful repair: {}", i.detail))),
                }
            } else if let Some(dr) = &post.delaunay {
                if dr.has_decidable() {
                    log.violate(mk("not_delaunay_after_repair", format!("repair reported success but {} decidable strict circumsphere violations remain", dr.decidable().len())).fact("cause", post.violation_class));
                } else if post.ref_equal == Some(false) && dr.violations.is_empty() && post.convex_decidable.is_empty() && post.convex_in_band == 0 && post.levels.orient_in_band == 0 {
                    log.violate(mk("differs_from_reference_dt", post.ref_detail.clone()));
                }
                if post.ref_equal == Some(true) {
                    log.class("equals_reference_dt");
                }
            }
            if pre_violations > 0 && *flips >= 1 {
                log.nontrivial_hash(hash_of(&serde_json::to_string(case).unwrap_or_default()));
            }
            let _ = legal;
        }
        Outcome::RepairErr { invalid_topology, .. } => {
            log.class(format!("repair:Err{}", if *invalid_topology { ":InvalidTopology" } else { "" }));
            if !admissible {
                if !*invalid_topology {
                    log.violate(mk("inadmissible_not_reported", "flips are not admissible under the guarantee but the error is not InvalidTopology".into()));
                }
                let fp_after = w.fingerprint(&after);
                if fp_after != fp_before {
                    log.violate(mk("inadmissible_repair_changed_state", format!("repair refused for topology reasons but changed the triangulation: {}", diff(&fp_before, &fp_after))));
                }
            }
        }
        _ => {}
    }
}

pub fn exec(case: &Case, log: &mut CaseLog) {
    if !(2..=5).contains(&case.dim) || case.start.points.iter().any(|p| p.len() != case.dim) {
        return;
    }
    dispatch_kd!(case.dim, case.robust, run, case, log)
}

pub const MIX: OpMix = OpMix { insert: 3, remove: 1, flips: 12, repair: 0, setters: 0, clone: 0, adversarial_uuid: false };

pub fn strategy(dim: usize, max_ops: usize) -> BoxedStrategy<Case> {
    let nmax = match dim {
        2 => 14,
        3 => 11,
        4 => 8,
        _ => 8,
    };
    let repair = prop_oneof![
        2 => Just(Op::Repair),
        2 => (proptest::option::of(any::<u64>()), proptest::option::of(any::<u64>())).prop_map(|(shuffle, perturb)| Op::RepairAdvanced { shuffle, perturb }),
    ];
    (any::<bool>(), any::<u64>(), start_strategy(dim, nmax, 0), proptest::collection::vec(op_strategy(dim, MIX), 1..=max_ops), repair)
        .prop_map(move |(robust, salt, start, ops, repair)| Case { dim, robust, salt, start, ops, repair })
        .boxed()
}

pub fn run_shard(ctx: &mut Ctx) {
    let thorough = ctx.tier == Tier::Thorough;
    let max_ops = if thorough { 20 } else { 8 };
    for dim in 2..=5usize {
        let total = match (ctx.tier, dim) {
            (Tier::Quick, 2) => 2500,
            (Tier::Quick, 3) => 2000,
            (Tier::Quick, 4) => 1000,
            (Tier::Quick, _) => 600,
            (Tier::Thorough, 2) => 40_000,
            (Tier::Thorough, 3) => 30_000,
            (Tier::Thorough, 4) => 12_000,
            (Tier::Thorough, _) => 8_000,
        };
        let n = ctx.share(total);
        ctx.run_cases(&format!("repair_d{dim}"), n, strategy(dim, max_ops), &|c, l| exec(c, l));
    }
}

pub fn replay(_label: &str, case: &Value, ctx: &mut Ctx) -> Option<Violation> {
    let c: Case = serde_json::from_value(case.clone()).ok()?;
    ctx.run_one("replay", &c, &|c, l| exec(c, l))
}

pub fn meta() -> super::Meta {
    super::Meta {
        id: ID,
        level: "exploration",
        rule: "case = batch-constructed start state, then 1-8 (quick) / 1-20 (thorough) generated legal flips of every kind, removals and insertions with automatic repair off (flip distance from Delaunay up to the sequence length), then one call of repair_delaunay_with_flips or repair_delaunay_with_flips_advanced (generated or default seeds) under the state's topology guarantee; only pre-states that pass the independent L1-L3 / orientation / convexity certification are judged; on Ok: same vertex set (bit-identical unless the heuristic rebuild ran, then within the documented perturbation), independent L1-L3, no decidable strict circumsphere violation, equality with the brute-force Delaunay triangulation in general position; inadmissible flips must yield InvalidTopology and an unchanged fingerprint; evaluations = repair calls judged; non-trivial = pre-state with a decidable violation and a successful repair that performed >= 1 flip; distinct by the whole case",
        assumptions: &[
            "the admissibility gate follows the public predicate TopologicalOperation::FacetFlip.is_admissible_under (true for all three guarantees in the code, so the gate is recorded as never exercised)",
            "the flip budget is not observable through the public API without the work-counter hook and is not judged here",
            "state after Err is C03's claim",
        ],
        exhaustive: false,
        max_shards: 8,
    }
}
