//! C19 — no panic and guaranteed termination on any finite input; non-finite coordinates refused.
//!
//! Two parts: (A) the case generators of the other properties are re-run with only the panic /
//! watchdog monitor active; (B) a dedicated adversarial history generator (stale / forged / foreign
//! handles on every handle-taking API, out-of-range facet indices, extreme magnitudes, NaN / inf
//! vertices built with `Point::new`, setters in every order incl. bootstrap states, hulls and
//! adjacency indices used with another triangulation).

use crate::dispatch_kd;
use crate::driver::ctx::{hash_of, CaseLog, Ctx, Tier, Violation};
use crate::gen::history::{op_strategy_ext, start_strategy, start_world, Op, OpMix, Outcome, PointSpec, Start, World};
use crate::gen::world::{mk_point, Kern};
use crate::oracle::snap::{ckey_from_u64, vkey_from_u64, Snap};
use delaunay::core::algorithms::locate::locate_with_stats;
use delaunay::geometry::algorithms::convex_hull::ConvexHull;
use proptest::prelude::*;
use serde::{Deserialize, Serialize};
use serde_json::Value;

pub const ID: &str = "C19";

#[derive(Debug, Clone, Serialize, Deserialize)]
pub struct Case {
    pub dim: usize,
    pub robust: bool,
    pub salt: u64,
    pub start: Start,
    pub ops: Vec<Op>,
}

fn poke<K: Kern<D>, const D: usize>(w: &World<K, D>, s: &Snap, other: &World<K, D>, log: &mut CaseLog) {
    // read-only APIs with handles of any provenance: must return (not panic)
    let k = K::make();
    let forged_c = [0u64, 0x0000_0001_0000_7FFF, u64::MAX, s.cells.first().map_or(7, |c| c.key + (2u64 << 32))];
    let forged_v = [0u64, 0x0000_0001_0000_7FFF, u64::MAX, s.verts.first().map_or(7, |v| v.key + (2u64 << 32))];
    let tri = w.dt.as_triangulation();
    for &c in &forged_c {
        let ck = ckey_from_u64(c);
        let _ = w.dt.cell_vertices(ck);
        let _ = w.dt.cell_neighbors(ck).count();
        let _ = w.dt.tds().get_cell(ck);
        let _ = w.dt.tds().find_neighbors_by_key(ck);
        log.evals += 1;
    }
    for &v in &forged_v {
        let vk = vkey_from_u64(v);
        let _ = w.dt.vertex_coords(vk);
        let _ = w.dt.incident_edges(vk).count();
        let _ = tri.adjacent_cells(vk).count();
        let _ = tri.number_of_incident_edges(vk);
        let _ = w.dt.tds().find_cells_containing_vertex_by_key(vk);
        log.evals += 1;
    }
    // locate with extreme points and every kind of hint; bounded walk
    if !s.cells.is_empty() {
        for q in [vec![0.0; D], vec![1e300; D], vec![-1e300; D], vec![5e-324; D], (0..D).map(|j| if j == 0 { 1.7e308 } else { -1.7e308 }).collect::<Vec<f64>>()] {
            for h in [None, Some(forged_c[1]), Some(forged_c[3]), s.cells.last().map(|c| c.key)] {
                log.evals += 1;
                if let Ok((_, st)) = locate_with_stats(w.dt.tds(), &k, &mk_point::<D>(&q), h.map(ckey_from_u64)) {
                    if st.walk_steps > 10_000 + s.cells.len() {
                        log.violate(Violation::new(ID, "unbounded_walk", "locate_with_stats", format!("locate walked {} steps on {} cells", st.walk_steps, s.cells.len())));
                    }
                }
            }
        }
    }
    // validators and reports never panic on reachable states
    let _ = w.dt.validate();
    let _ = w.dt.is_valid();
    let _ = w.dt.validation_report();
    let _ = w.dt.build_adjacency_index();
    // a hull / adjacency index of ANOTHER triangulation used with this one
    if let Ok(h) = ConvexHull::from_triangulation(other.dt.as_triangulation()) {
        let p = mk_point::<D>(&vec![0.5; D]);
        let _ = h.is_valid_for_triangulation(tri);
        let _ = h.validate(tri);
        let _ = h.is_point_outside(&p, tri);
        let _ = h.find_visible_facets(&p, tri);
        let _ = h.find_nearest_visible_facet(&p, tri);
        if let Some(f) = h.facets().next() {
            let _ = h.is_facet_visible_from_point(f, &p, tri);
        }
        log.evals += 1;
    }
    if !cfg!(debug_assertions) {
        // (the *_with_index accessors debug_assert that the index belongs to the triangulation: a
        // documented precondition, exercised only where it is not an assertion)
        if let Ok(ix) = other.dt.build_adjacency_index() {
            let _ = w.dt.edges_with_index(&ix).count();
            for &v in &forged_v {
                let _ = w.dt.incident_edges_with_index(&ix, vkey_from_u64(v)).count();
            }
            for &c in &forged_c {
                let _ = w.dt.cell_neighbors_with_index(&ix, ckey_from_u64(c)).count();
            }
            log.evals += 1;
        }
    }
}

fn run<K: Kern<D>, const D: usize>(case: &Case, log: &mut CaseLog) {
    log.class(format!("D{D}"));
    let Some(mut w) = start_world::<K, D>(&case.start, case.salt) else {
        log.class("start:construction_err");
        return;
    };
    // a second, unrelated triangulation (for foreign hulls / indices / keys)
    let other_start = Start { points: (0..=D).map(|i| (0..D).map(|j| if i == j + 1 { 2.0 } else { 0.25 * j as f64 }).collect()).collect(), guarantee: 1, validation: None, repair: None, check: None, scale_pow: 0 };
    let Some(other) = start_world::<K, D>(&other_start, case.salt ^ 0x0707) else { return };
    let mut before = w.snap();
    let mut adversarial = 0usize;
    for (step, op) in case.ops.iter().enumerate() {
        let nonfinite = matches!(op, Op::Insert { p: PointSpec::NonFinite(..), .. });
        let extreme = matches!(op, Op::Insert { p: PointSpec::Extreme(..), .. });
        let (res, out) = w.apply(&before, op);
        log.evals += 1;
        if res.adversarial || nonfinite || extreme {
            adversarial += 1;
        }
        log.class(format!("op:{}", out.label()));
        if let Outcome::SetPanicked { site, message } = &out {
            log.violate(Violation::new(ID, "panic", site, format!("step {step} ({}): policy setter panicked: {message}", res.desc)).fact("profile", if cfg!(debug_assertions) { "relchk" } else { "release" }).fact("setter", true));
            return;
        }
        let after = w.snap();
        if nonfinite {
            log.class("nonfinite_insert_attempt");
            if matches!(out, Outcome::Inserted { .. }) {
                log.violate(Violation::new(ID, "nonfinite_accepted", "insert", format!("step {step} ({}): a vertex with a non-finite coordinate was reported Inserted", res.desc)).fact("had_cells", !before.cells.is_empty()));
            }
        }
        if !after.all_finite() {
            log.violate(Violation::new(ID, "nonfinite_stored", "insert", format!("step {step} ({}): the triangulation now contains a vertex with a non-finite coordinate", res.desc)).fact("had_cells", !before.cells.is_empty()));
            return;
        }
        match &out {
            Outcome::Inserted { attempts, .. } | Outcome::Skipped { attempts, .. } => {
                // documented: a single perturbation retry
                if *attempts > 2 {
                    log.violate(Violation::new(ID, "retry_budget_exceeded", "insert_with_statistics", format!("step {step}: {} attempts reported (documented: at most one perturbation retry)", attempts)));
                }
            }
            _ => {}
        }
        if step % 3 == 0 || step + 1 == case.ops.len() {
            poke(&w, &after, &other, log);
        }
        if !log.violations.is_empty() {
            return;
        }
        before = after;
    }
    if adversarial > 0 {
        log.nontrivial_hash(hash_of(&serde_json::to_string(case).unwrap_or_default()));
    }
}

pub fn exec(case: &Case, log: &mut CaseLog) {
    if !(2..=5).contains(&case.dim) || case.start.points.iter().any(|p| p.len() != case.dim) {
        return;
    }
    dispatch_kd!(case.dim, case.robust, run, case, log)
}

pub const MIX: OpMix = OpMix { insert: 8, remove: 4, flips: 8, repair: 3, setters: 4, clone: 2, adversarial_uuid: true };

pub fn strategy(dim: usize, max_ops: usize) -> BoxedStrategy<Case> {
    let nmax = match dim {
        2 => 12,
        3 => 10,
        4 => 8,
        _ => 7,
    };
    (any::<bool>(), any::<u64>(), start_strategy(dim, nmax, 3), proptest::collection::vec(op_strategy_ext(dim, MIX, true), 1..=max_ops))
        .prop_map(move |(robust, salt, start, ops)| Case { dim, robust, salt, start, ops })
        .boxed()
}

/// Run another property's generator with only the panic monitor (its own oracle verdicts are dropped).
macro_rules! piggyback {
    ($ctx:expr, $label:expr, $n:expr, $strat:expr, $exec:path) => {{
        let n = $ctx.share($n);
        $ctx.run_cases($label, n, $strat, &|c, l| {
            let mut tmp = CaseLog::default();
            $exec(c, &mut tmp);
            l.evals += tmp.evals.max(1);
            l.class(concat!("piggyback"));
        });
    }};
}

/// C01's construction case under C19's monitor only (panics are caught by the driver, C01's own verdicts dropped).
pub fn exec_c01_monitor(case: &super::c01::Case, log: &mut CaseLog) {
    let mut tmp = CaseLog::default();
    super::c01::exec(case, &mut tmp);
    log.evals += tmp.evals.max(1);
}

/// C01's batch-construction cases with coordinates pushed to extreme (still finite) magnitudes:
/// every point, or a generated subset, is multiplied by 2^k with |k| up to 1000, so that squared
/// distances and determinants overflow or underflow inside the construction paths.
pub fn extreme_batch_strategy(dim: usize) -> BoxedStrategy<super::c01::Case> {
    (super::c01::case_strategy(dim, false), prop_oneof![Just(520i32), Just(600), Just(900), Just(1000), Just(-520), Just(-900), Just(-1040), 100i32..=1000, -1000i32..=-100], any::<u16>(), 0u8..4)
        .prop_map(|(mut c, k, mask, mode)| {
            let f = 2f64.powi(k.clamp(-1022, 1000));
            let n = c.points.pts.len();
            for (i, p) in c.points.pts.iter_mut().enumerate() {
                let hit = match mode {
                    0 => true,                          // everything
                    1 => i == (mask as usize) % n.max(1), // a single outlier
                    2 => mask & (1 << (i % 16)) != 0,   // a subset
                    _ => i % 2 == 0,
                };
                if hit {
                    for x in p.iter_mut() {
                        let y = *x * f;
                        // keep the input finite: that is the property's domain
                        *x = if y.is_finite() { y } else { f64::MAX.copysign(*x) / 4.0 };
                    }
                }
            }
            c.points.family = format!("extreme_2^{k}_mode{mode}");
            c
        })
        .boxed()
}

/// C16's toroidal cases with periods and points scaled together by a huge power of two.
pub fn extreme_toroidal_strategy(periodic: bool) -> BoxedStrategy<super::c16::Case> {
    (super::c16::strategy(2, periodic, false), prop_oneof![Just(520i32), Just(540), Just(600), Just(900), Just(-520), Just(-900), 100i32..=960, -960i32..=-100])
        .prop_map(|(mut c, k)| {
            let f = 2f64.powi(k);
            for l in c.periods.iter_mut() {
                let y = *l * f;
                if y.is_finite() && y > 0.0 {
                    *l = y;
                }
            }
            for p in c.pts.iter_mut().chain(c.inserts.iter_mut()) {
                for x in p.iter_mut() {
                    let y = *x * f;
                    if y.is_finite() {
                        *x = y;
                    }
                }
            }
            c
        })
        .boxed()
}

pub fn run_shard(ctx: &mut Ctx) {
    let thorough = ctx.tier == Tier::Thorough;
    let max_ops = if thorough { 40 } else { 14 };
    for dim in 2..=5usize {
        let total = match (ctx.tier, dim) {
            (Tier::Quick, 2) => 1500,
            (Tier::Quick, 3) => 1200,
            (Tier::Quick, 4) => 600,
            (Tier::Quick, _) => 400,
            (Tier::Thorough, 2) => 30_000,
            (Tier::Thorough, 3) => 25_000,
            (Tier::Thorough, 4) => 12_000,
            (Tier::Thorough, _) => 8_000,
        };
        let n = ctx.share(total);
        ctx.run_cases(&format!("adversarial_history_d{dim}"), n, strategy(dim, max_ops), &|c, l| exec(c, l));
    }
    // piggyback on the other properties' generators (panic / hang monitor only)
    let f = if thorough { 10 } else { 1 };
    for dim in 2..=4usize {
        piggyback!(ctx, &format!("pb_c01_d{dim}"), 150 * f, super::c01::case_strategy(dim, thorough), super::c01::exec);
        piggyback!(ctx, &format!("pb_c06_d{dim}"), 120 * f, super::c06::strategy(dim, 10, thorough), super::c06::exec);
        piggyback!(ctx, &format!("pb_c07_d{dim}"), 120 * f, super::c07::strategy(dim, 10), super::c07::exec);
        piggyback!(ctx, &format!("pb_c08_d{dim}"), 120 * f, super::c08::strategy(dim, 8), super::c08::exec);
        piggyback!(ctx, &format!("pb_c09_d{dim}"), 60 * f, super::c09::strategy(dim, 8), super::c09::exec);
        piggyback!(ctx, &format!("pb_c11_d{dim}"), 100 * f, super::c11::strategy(dim, 8), super::c11::exec);
        piggyback!(ctx, &format!("pb_c13_d{dim}"), 60 * f, super::c13::strategy(dim, 6), super::c13::exec);
        piggyback!(ctx, &format!("pb_c15_d{dim}"), 100 * f, super::c15::strategy(dim, 10), super::c15::exec);
    }
    for dim in 2..=5usize {
        piggyback!(ctx, &format!("pb_c01x_d{dim}"), if dim <= 3 { 300 } else { 120 } * f, extreme_batch_strategy(dim), super::c01::exec);
    }
    piggyback!(ctx, "pb_c16x_d2", 150 * f, extreme_toroidal_strategy(false), super::c16::exec);
    piggyback!(ctx, "pb_c16x_d2p", 150 * f, extreme_toroidal_strategy(true), super::c16::exec);
    piggyback!(ctx, "pb_c16_d2", 200 * f, super::c16::strategy(2, false, false), super::c16::exec);
    piggyback!(ctx, "pb_c16_d2p", 100 * f, super::c16::strategy(2, true, false), super::c16::exec);
    piggyback!(ctx, "pb_c10_d3", 40 * f, super::c10::strategy(3, thorough), super::c10::exec);
}

pub fn replay(label: &str, case: &Value, ctx: &mut Ctx) -> Option<Violation> {
    // piggyback cases carry the other property's case type
    macro_rules! pb {
        ($t:path, $exec:path) => {{
            let c: $t = serde_json::from_value(case.clone()).ok()?;
            return ctx.run_one("replay", &c, &|c, l| {
                let mut tmp = CaseLog::default();
                $exec(c, &mut tmp);
                l.evals += 1;
            });
        }};
    }
    if label.starts_with("pb_c01") {
        pb!(super::c01::Case, super::c01::exec)
    } else if label.starts_with("pb_c06") {
        pb!(super::c06::Case, super::c06::exec)
    } else if label.starts_with("pb_c07") {
        pb!(super::c07::Case, super::c07::exec)
    } else if label.starts_with("pb_c08") {
        pb!(super::c08::Case, super::c08::exec)
    } else if label.starts_with("pb_c09") {
        pb!(super::c09::Case, super::c09::exec)
    } else if label.starts_with("pb_c10") {
        pb!(super::c10::Case, super::c10::exec)
    } else if label.starts_with("pb_c11") {
        pb!(super::c11::Case, super::c11::exec)
    } else if label.starts_with("pb_c13") {
        pb!(super::c13::Case, super::c13::exec)
    } else if label.starts_with("pb_c15") {
        pb!(super::c15::Case, super::c15::exec)
    } else if label.starts_with("pb_c16") {
        pb!(super::c16::Case, super::c16::exec)
    }
    let c: Case = serde_json::from_value(case.clone()).ok()?;
    ctx.run_one("replay", &c, &|c, l| exec(c, l))
}

pub fn meta() -> super::Meta {
    super::Meta {
        id: ID,
        level: "exploration",
        rule: "(A) adversarial stateful generator: start state (empty, constructed, scaled by 2^-6..2^3) + up to 14 (quick) / 40 (thorough) operations drawn from every mutating API with stale / forged / null / out-of-range handles (top 1/256 of every selector, facet indices 250-255), duplicate and dead UUIDs, state-relative degenerate points, coordinates m*2^(8e) up to 2^960, and NaN / +-inf vertices built with Point::new; after every third step all read APIs are called with forged vertex and cell keys, locate is driven with extreme queries and every hint (walk bounded by 10000 + cells), the validators and reports are run, and a ConvexHull and AdjacencyIndex of an unrelated triangulation are used against the state; every call runs under catch_unwind (a panic located in the library is a violation in either build profile) and a per-case wall-clock watchdog; after a non-finite insertion attempt no vertex may be non-finite; (B) the generators of C01, C06-C11, C13, C15, C16 are re-run with only the panic / watchdog monitor, and C01's batch cases (every option combination incl. the Balanced initial simplex) and C16's toroidal cases are also run with coordinates / periods multiplied by 2^k, |k| up to 1000 (all points, one outlier, or a subset), so that squared distances and determinants overflow; a case that exceeds the per-case watchdog is replayed alone in a fresh process and reported as a violation (no_return) only if it does not return there within 300 s either; evaluations = operations + API pokes; non-trivial = history with >= 1 adversarial handle, extreme or non-finite coordinate; distinct by the whole case",
        assumptions: &[
            "termination is observed through the public work statistics (locate walk_steps, insertion attempts) plus the watchdog; the hook-based work counters planned in DESIGN 1.1 were not built",
            "the *_with_index accessors debug_assert that the index belongs to the triangulation (documented precondition): foreign indices are exercised only in the release profile",
        ],
        exhaustive: false,
        max_shards: 8,
    }
}
