//! C03 — failed or skipped mutations leave the triangulation exactly as it was.
//!
//! Two oracles over generated histories:
//!  * natural failures: whenever a call reports Err / Skipped the complete fingerprint (vertices
//!    with UUID, coordinate bits and data; cells with UUIDs; neighbour relation; counts; policies)
//!    must equal the one taken before the call, and the rest of the history must behave exactly
//!    as on a twin that never made the call;
//!  * injected failures: for chosen steps every failpoint the call reaches (feature-gated
//!    `verif_failpoints`, placed before existing fallible statements) is forced, one at a time and
//!    in two error flavours, on a fork of the pre-state; a reported failure must leave the fork
//!    identical to the pre-state and the next operation must behave as on an untouched fork.

use crate::dispatch_kd;
use crate::driver::ctx::{guarded, hash_of, CaseLog, Ctx, Tier, Violation};
use crate::gen::history::{op_strategy, start_strategy, start_world, Op, OpMix, Outcome, PointSpec, Start, UuidSpec, World};
use crate::gen::world::Kern;
use crate::oracle::fingerprint::{diff, fingerprint, Fingerprint};
use crate::oracle::snap::Snap;
use delaunay::verif_failpoints as fp;
use proptest::prelude::*;
use serde::{Deserialize, Serialize};
use serde_json::Value;
use std::collections::HashMap;

pub const ID: &str = "C03";

#[derive(Debug, Clone, Serialize, Deserialize)]
pub struct Case {
    pub dim: usize,
    pub robust: bool,
    pub salt: u64,
    pub start: Start,
    pub ops: Vec<Op>,
    /// steps (selectors into the history) at which failpoints are enumerated
    pub inject_at: Vec<u16>,
    /// which natural failure (0 = first) starts the never-called twin
    pub twin_at: u8,
    /// replay of a single injected fault: (step, hit index, flavour); empty = enumerate
    #[serde(default)]
    pub only: Vec<(usize, u64, u8)>,
}

/// Key-independent ordering so that positional selectors resolve to the same logical entities in
/// two worlds whose slot-map keys differ.
fn canon(s: &Snap) -> Snap {
    let mut c = s.clone();
    c.verts.sort_by_key(|v| v.uuid);
    let ku: HashMap<u64, u128> = c.verts.iter().map(|v| (v.key, v.uuid)).collect();
    c.cells.sort_by_cached_key(|cell| {
        let mut t: Vec<u128> = cell.verts.iter().map(|k| *ku.get(k).unwrap_or(&0)).collect();
        t.sort_unstable();
        t
    });
    c
}

fn fp_full<K: Kern<D>, const D: usize>(w: &World<K, D>, s: &Snap) -> Fingerprint {
    fingerprint(s, &w.policies(), true)
}
fn fp_loose<K: Kern<D>, const D: usize>(w: &World<K, D>, s: &Snap) -> Fingerprint {
    fingerprint(s, &w.policies(), false)
}

fn op_kind(op: &Op) -> &'static str {
    match op {
        Op::Insert { stats: true, .. } => "insert_with_statistics",
        Op::Insert { .. } => "insert",
        Op::Remove { .. } => "remove_vertex",
        Op::FlipK1Insert { .. } => "flip_k1_insert",
        Op::FlipK1Remove { .. } => "flip_k1_remove",
        Op::FlipK2 { .. } => "flip_k2",
        Op::FlipK3 { .. } => "flip_k3",
        Op::FlipK2Inv { .. } => "flip_k2_inverse_from_edge",
        Op::FlipK3Inv { .. } => "flip_k3_inverse_from_triangle",
        Op::Repair => "repair_delaunay_with_flips",
        Op::RepairAdvanced { .. } => "repair_delaunay_with_flips_advanced",
        _ => "other",
    }
}

/// Is a copy of the pre-state a sound reference for *later behaviour* after this failed call?
/// insert / remove_vertex / repair roll back by restoring a cloned TDS (slot map restored bit for
/// bit). A failed flip_k1_insert removes the vertex it had inserted and a flip that fails while
/// staging removes its new cells again: the observable state is the same but free slots carry
/// newer versions, so later keys differ and the library's key-hashed containers may iterate in a
/// different order and take a different, equally legitimate path. Those are not compared.
fn twin_sound(op: &Op, fired: Option<&str>) -> bool {
    if matches!(op, Op::FlipK1Insert { .. }) {
        return false;
    }
    !matches!(fired, Some("flip.cell_new" | "flip.boundary" | "flip.external" | "flip.wire" | "flip.normalize"))
}

fn is_mutation(op: &Op) -> bool {
    op_kind(op) != "other"
}

/// comparable summary of an outcome (keys and messages excluded)
fn outcome_sig(o: &Outcome) -> String {
    match o {
        Outcome::Inserted { uuid, coords, data, .. } => format!("Inserted {:032x} {:?} {:?}", uuid, coords.iter().map(|x| x.to_bits()).collect::<Vec<_>>(), data),
        Outcome::Skipped { duplicate, class, .. } => format!("Skipped dup={duplicate} {class}"),
        Outcome::InsertErr { class, .. } => format!("InsertErr {class}"),
        Outcome::Removed { cells, uuid, known } => format!("Removed {cells} {:032x} {known}", uuid),
        Outcome::Flip(f) => format!("Flip k={} inv={} -{} +{}", f.k, f.inverse, f.removed_cells.len(), f.new_cells.len()),
        Outcome::Repaired { flips, heuristic } => format!("Repaired {flips} {heuristic}"),
        Outcome::RepairErr { invalid_topology, .. } => format!("RepairErr {invalid_topology}"),
        other => other.label().to_string(),
    }
}

fn apply_guarded<K: Kern<D>, const D: usize>(w: &mut World<K, D>, op: &Op) -> Result<Outcome, (String, String)> {
    let before = canon(&w.snap());
    guarded(|| w.apply(&before, op).1)
}

fn default_probe(dim: usize) -> Op {
    Op::Insert { p: PointSpec::CellBary(0, vec![1; dim + 1]), stats: true, uuid: UuidSpec::Fresh }
}

fn run<K: Kern<D>, const D: usize>(case: &Case, log: &mut CaseLog) {
    log.class(format!("D{D}"));
    log.class(format!("kernel:{}", K::NAME));
    let Some(mut w) = start_world::<K, D>(&case.start, case.salt) else {
        log.class("start:construction_err");
        return;
    };
    let nops = case.ops.len();
    let inject_steps: Vec<usize> = case.inject_at.iter().map(|s| crate::gen::world::pick(*s, nops.max(1))).collect();
    let mut twin: Option<World<K, D>> = None;
    // the same twin with its performance caches dropped at creation (equally acceptable reference)
    let mut twin_dropped: Option<World<K, D>> = None;
    let mut failures_seen = 0u32;
    let mut nontrivial = false;

    for (step, op) in case.ops.iter().enumerate() {
        let pre_snap = w.snap();
        let pre_fp = fp_full(&w, &pre_snap);

        // ---------------- injected failures on forks of the pre-state ----------------
        let replay_here: Vec<(u64, u8)> = case.only.iter().filter(|t| t.0 == step).map(|t| (t.1, t.2)).collect();
        if is_mutation(op) && ((case.only.is_empty() && inject_steps.contains(&step)) || !replay_here.is_empty()) {
            let mut dry = w.fork();
            fp::begin(None, 0);
            let dry_out = apply_guarded(&mut dry, op);
            let rep = fp::end();
            if dry_out.is_ok() && rep.hits > 0 {
                let n = rep.hits;
                let stride = ((n + 15) / 16).max(1);
                let plan: Vec<(u64, u8)> = if replay_here.is_empty() { (1..=n).step_by(stride as usize).flat_map(|k| [(k, 0u8), (k, 1u8)]).collect() } else { replay_here };
                for (k, flavour) in plan {
                    let mut e = w.fork();
                    fp::begin(Some(k), flavour);
                    let out = apply_guarded(&mut e, op);
                    let r = fp::end();
                    let Some(site) = r.fired else { continue };
                    log.evals += 1;
                    log.class(format!("inject:{site}"));
                    let out = match out {
                        Ok(o) => o,
                        Err((loc, msg)) => {
                            // a panic under an injected failure is outside this property (C19 monitors panics)
                            log.class("inject:panicked(not judged)");
                            let _ = (loc, msg);
                            continue;
                        }
                    };
                    nontrivial = true;
                    if !out.is_failure() {
                        log.class("inject:absorbed(call succeeded)");
                        continue;
                    }
                    log.class(format!("inject:reported:{}", out.label()));
                    let es = e.snap();
                    let efp = fp_full(&e, &es);
                    if efp != pre_fp {
                        log.violate(
                            Violation::new(ID, "state_changed_after_injected_failure", op_kind(op), format!("step {step} {op:?}: failpoint {site} (hit {k}/{n}, flavour {flavour}) made the call report {} but the triangulation changed: {}", out.label(), diff(&pre_fp, &efp)))
                                .fact("site", site)
                                .fact("op", op_kind(op))
                                .fact("dim", D as u64)
                                .fact("injected", true)
                                .fact("inject", serde_json::json!([step, k, flavour])),
                        );
                        continue;
                    }
                    // later operations behave as if the failed call had never been made
                    if !twin_sound(op, Some(site)) {
                        log.class("inject:later_not_compared(slot_versions_differ)");
                        continue;
                    }
                    let next = case.ops.get(step + 1).cloned().filter(is_mutation).unwrap_or_else(|| default_probe(D));
                    let mut clean = w.fork();
                    clean.next_id = e.next_id;
                    clean.stale_cells = e.stale_cells.clone();
                    clean.stale_vertices = e.stale_vertices.clone();
                    let mut clean_dropped = w.fork();
                    clean_dropped.next_id = e.next_id;
                    clean_dropped.stale_cells = e.stale_cells.clone();
                    clean_dropped.stale_vertices = e.stale_vertices.clone();
                    let _ = clean_dropped.dt.as_triangulation_mut(); // documented to drop the locate hint / spatial index caches
                    let a = apply_guarded(&mut e, &next);
                    let b = apply_guarded(&mut clean, &next);
                    if let (Ok(a), Ok(b)) = (a, b) {
                        let (fa, fb) = (fp_loose(&e, &e.snap()), fp_loose(&clean, &clean.snap()));
                        if outcome_sig(&a) != outcome_sig(&b) || fa != fb {
                            // a failed call may drop performance caches (any Edit-API call does); the
                            // reference "never made the call, caches dropped" is equally acceptable
                            let c = apply_guarded(&mut clean_dropped, &next);
                            let same_as_dropped = matches!(&c, Ok(c) if outcome_sig(c) == outcome_sig(&a) && fp_loose(&clean_dropped, &clean_dropped.snap()) == fa);
                            if same_as_dropped {
                                log.class("inject:later_differs_only_by_cache_drop(accepted)");
                            } else {
                                log.violate(
                                    Violation::new(ID, "later_behaviour_differs_after_injected_failure", op_kind(op), format!("step {step} {op:?}: after failpoint {site} (hit {k}/{n}, flavour {flavour}) made the call report {}, the next call {next:?} gave {} / state {} whereas on an untouched copy (with or without its caches dropped) it gave {}", out.label(), outcome_sig(&a), diff(&fb, &fa), outcome_sig(&b)))
                                        .fact("site", site)
                                        .fact("op", op_kind(op))
                                        .fact("dim", D as u64)
                                        .fact("injected", true)
                                        .fact("inject", serde_json::json!([step, k, flavour])),
                                );
                            }
                        }
                    }
                }
            }
        }
        if !case.only.is_empty() && log.violations.len() > 0 {
            return;
        }

        // ---------------- the real call ----------------
        let pre_twin = if twin.is_none() && is_mutation(op) { Some(w.fork()) } else { None };
        let mut just_created = false;
        let out = match apply_guarded(&mut w, op) {
            Ok(o) => o,
            Err(_) => {
                log.class("panicked(not judged)");
                return;
            }
        };
        log.evals += 1;
        if std::env::var_os("DVCHECK_C03_DEBUG").is_some() {
            eprintln!("step {step} {op:?} -> {:?}", out);
        }
        let post_snap = w.snap();
        if out.is_failure() {
            nontrivial = true;
            log.class(format!("natural:{}:{}", op_kind(op), out.label()));
            let post_fp = fp_full(&w, &post_snap);
            if post_fp != pre_fp {
                let what = match &out {
                    Outcome::Skipped { error, .. } | Outcome::InsertErr { error, .. } | Outcome::RemoveErr { error } | Outcome::FlipErr { error } | Outcome::RepairErr { error, .. } => error.chars().take(160).collect::<String>(),
                    _ => String::new(),
                };
                log.violate(
                    Violation::new(ID, "state_changed_after_failure", op_kind(op), format!("step {step} {op:?} reported {} ({what}) but the triangulation changed: {}", out.label(), diff(&pre_fp, &post_fp)))
                        .fact("op", op_kind(op))
                        .fact("dim", D as u64)
                        .fact("injected", false)
                        .fact("outcome", out.label()),
                );
                return;
            }
            if twin.is_none() {
                if failures_seen == case.twin_at as u32 && !twin_sound(op, None) {
                    log.class("twin_not_started(slot_versions_differ)");
                } else if failures_seen == case.twin_at as u32 {
                    twin = pre_twin;
                    if let Some(t) = twin.as_mut() {
                        // harness bookkeeping (fresh-id counter, remembered stale keys) advanced in the
                        // failed call; the twin shares it so later generated arguments are the same
                        t.next_id = w.next_id;
                        t.stale_cells = w.stale_cells.clone();
                        t.stale_vertices = w.stale_vertices.clone();
                        let mut td = t.fork();
                        let _ = td.dt.as_triangulation_mut();
                        twin_dropped = Some(td);
                    }
                    just_created = true;
                    log.class("twin_started");
                }
                failures_seen += 1;
            }
        }
        // advance the twins (they skip exactly the one failed call that created them)
        if !just_created && (twin.is_some() || twin_dropped.is_some()) {
            let fw = fp_loose(&w, &post_snap);
            let mut agree = false;
            let mut seen = String::new();
            for (name, slot) in [("twin", &mut twin), ("twin_with_dropped_caches", &mut twin_dropped)] {
                let Some(t) = slot.as_mut() else { continue };
                match apply_guarded(t, op) {
                    Ok(tout) => {
                        let ft = fp_loose(t, &t.snap());
                        if outcome_sig(&tout) == outcome_sig(&out) && fw == ft {
                            agree = true;
                        } else {
                            seen.push_str(&format!(" [{name}: {} / {}]", outcome_sig(&tout), diff(&ft, &fw)));
                            *slot = None; // diverged: no longer a reference
                        }
                    }
                    Err(_) => *slot = None,
                }
            }
            if !agree && !seen.is_empty() {
                log.violate(
                    Violation::new(ID, "later_behaviour_differs", op_kind(op), format!("step {step} {op:?}: after an earlier failed call the history gave {} whereas the twins that never made the failed call gave{seen}", outcome_sig(&out)))
                        .fact("op", op_kind(op))
                        .fact("dim", D as u64)
                        .fact("injected", false),
                );
                return;
            }
            if agree {
                log.class("twin_step_compared");
            }
        }
    }
    if nontrivial {
        log.nontrivial_hash(hash_of(&serde_json::to_string(case).unwrap_or_default()));
    }
}

pub fn exec(case: &Case, log: &mut CaseLog) {
    if !(2..=5).contains(&case.dim) || case.start.points.iter().any(|p| p.len() != case.dim) {
        return;
    }
    dispatch_kd!(case.dim, case.robust, run, case, log)
}

pub const MIX: OpMix = OpMix { insert: 8, remove: 5, flips: 6, repair: 3, setters: 2, clone: 0, adversarial_uuid: true };

pub fn strategy(dim: usize, max_ops: usize) -> BoxedStrategy<Case> {
    let nmax = match dim {
        2 => 12,
        3 => 10,
        4 => 8,
        _ => 8,
    };
    (any::<bool>(), any::<u64>(), start_strategy(dim, nmax, 2), proptest::collection::vec(op_strategy(dim, MIX), 1..=max_ops), proptest::collection::vec(any::<u16>(), 1..=3), 0u8..3)
        .prop_map(move |(robust, salt, start, ops, inject_at, twin_at)| Case { dim, robust, salt, start, ops, inject_at, twin_at, only: vec![] })
        .boxed()
}

pub fn run_shard(ctx: &mut Ctx) {
    let thorough = ctx.tier == Tier::Thorough;
    let max_ops = if thorough { 20 } else { 8 };
    for dim in 2..=5usize {
        let total = match (ctx.tier, dim) {
            (Tier::Quick, 2) => 2000,
            (Tier::Quick, 3) => 1600,
            (Tier::Quick, 4) => 800,
            (Tier::Quick, _) => 480,
            (Tier::Thorough, 2) => 12_000,
            (Tier::Thorough, 3) => 10_000,
            (Tier::Thorough, 4) => 5_000,
            (Tier::Thorough, _) => 3_000,
        };
        let n = ctx.share(total);
        ctx.run_cases(&format!("rollback_history_d{dim}"), n, strategy(dim, max_ops), &|c, l| exec(c, l));
    }
}

pub fn replay(_label: &str, case: &Value, ctx: &mut Ctx) -> Option<Violation> {
    let c: Case = serde_json::from_value(case.clone()).ok()?;
    ctx.run_one("replay", &c, &|c, l| exec(c, l))
}

pub fn meta() -> super::Meta {
    super::Meta {
        id: ID,
        level: "fault_enumeration",
        rule: "case = start state (empty or batch-built, D 2-5, both kernels, every guarantee / policy combination) + history of insert / insert_with_statistics (duplicates, live UUIDs, degenerate and out-of-hull points) / remove_vertex / six Edit-API flips (incl. stale and forged handles) / both repair entry points / policy setters; (a) every call that reports Err or Skipped must leave the full fingerprint (vertex UUIDs, coordinate bits, data, cell UUIDs, neighbour relation, counts, policies) unchanged and the rest of the history must give the same outcomes and states as a twin that never made the call; (b) at 1-3 chosen steps every failpoint the call reaches (up to 16, strided) is forced in two error flavours on a fork: a reported failure must leave the fork identical to the pre-state and the next call must behave as on an untouched fork; evaluations = real calls + injected runs; non-trivial = case with a natural failure or an injected run that fired",
        assumptions: &[
            "failpoints sit immediately before existing fallible statements and return an error of the enclosing function's error type: they simulate that statement failing on entry",
            "an injected failure that the library absorbs (retry, fallback) and a panic under injection are not judged here",
            "twin comparison is key-independent (selectors resolve in UUID order; cell UUIDs of cells created after the fork are not compared)",
        ],
        exhaustive: false,
        max_shards: 8,
    }
}
