//! C14 — construction is deterministic and independent of input order where promised.

use crate::driver::ctx::{hash_of, CaseLog, Ctx, Tier, Violation};
use crate::exact::geom::{binom, general_position, reference_dt, ScaledPoints};
use crate::gen::points::{max_n, point_set_from, uuid_for, PointSet, ALL_FAMILIES, GENERAL_FAMILIES};
use crate::gen::world::{mk_vertex, opt_spec, Dt, Kern, OptSpec};
use crate::oracle::delaunay::canonical_cells;
use crate::oracle::fingerprint::{fingerprint, Fingerprint};
use crate::oracle::snap::Snap;
use delaunay::core::vertex::Vertex;
use delaunay::geometry::kernel::{FastKernel, RobustKernel};
use proptest::prelude::*;
use serde::{Deserialize, Serialize};
use serde_json::Value;

pub const ID: &str = "C14";

#[derive(Debug, Clone, Serialize, Deserialize)]
pub struct Case {
    pub dim: usize,
    pub robust: bool,
    pub opts: OptSpec,
    pub salt: u64,
    pub points: PointSet,
    pub perm_seeds: Vec<u64>,
    /// also run in a child process / threads (costly, so only on some cases)
    pub cross_process: bool,
    /// batch entry point: 0 = with_topology_guarantee_and_options, 1 = ..._with_construction_statistics,
    /// 2 = DelaunayTriangulationBuilder (older replay files: 0)
    #[serde(default)]
    pub entry: u8,
}

thread_local! {
    static ENTRY: std::cell::Cell<u8> = const { std::cell::Cell::new(0) };
}

fn vertices<const D: usize>(pts: &[Vec<f64>], order: &[usize], salt: u64) -> Vec<Vertex<f64, i32, D>> {
    order.iter().map(|&i| mk_vertex::<i32, D>(&pts[i], uuid_for(salt, i), Some(i as i64 * 5 + 2))).collect()
}

/// Ok(fingerprint) or Err(()) of one construction.
fn build<K: Kern<D>, const D: usize>(pts: &[Vec<f64>], order: &[usize], salt: u64, opts: &OptSpec) -> Result<(Fingerprint, Snap), String> {
    let v = vertices::<D>(pts, order, salt);
    let k = K::make();
    let built = match ENTRY.with(|e| e.get()) % 3 {
        0 => Dt::<K, i32, D>::with_topology_guarantee_and_options(&k, &v, opts.guarantee(), opts.options()).map_err(|e| e.to_string()),
        1 => Dt::<K, i32, D>::with_topology_guarantee_and_options_with_construction_statistics(&k, &v, opts.guarantee(), opts.options()).map(|(dt, _)| dt).map_err(|e| e.to_string()),
        _ => delaunay::core::builder::DelaunayTriangulationBuilder::from_vertices(&v).topology_guarantee(opts.guarantee()).construction_options(opts.options()).build_with_kernel::<K, ()>(&k).map_err(|e| e.to_string()),
    };
    match built {
        Ok(dt) => {
            let s = Snap::of(dt.tds());
            Ok((fingerprint(&s, "", false), s))
        }
        Err(e) => Err(e),
    }
}

fn build_incremental<K: Kern<D>, const D: usize>(pts: &[Vec<f64>], order: &[usize], salt: u64, opts: &OptSpec) -> Option<Snap> {
    let v = vertices::<D>(pts, order, salt);
    let mut dt = Dt::<K, i32, D>::with_empty_kernel_and_topology_guarantee(K::make(), opts.guarantee());
    for x in v {
        let _ = dt.insert(x);
    }
    // "certified": the property speaks of successful, certified constructions; for the
    // incremental path that means the library's own cumulative validation accepts the result
    if dt.validate().is_err() {
        return None;
    }
    Some(Snap::of(dt.tds()))
}

fn fp_hash(r: &Result<(Fingerprint, Snap), String>) -> String {
    match r {
        Ok((f, _)) => format!("Ok:{:016x}", hash_of(f)),
        Err(_) => "Err".to_string(),
    }
}

pub fn permutation(n: usize, seed: u64) -> Vec<usize> {
    let mut p: Vec<usize> = (0..n).collect();
    match seed % 4 {
        0 => p.reverse(),
        1 => p.rotate_left((seed as usize / 4) % n.max(1)),
        _ => {
            let mut s = seed | 1;
            for i in (1..n).rev() {
                s ^= s << 13;
                s ^= s >> 7;
                s ^= s << 17;
                p.swap(i, (s % (i as u64 + 1)) as usize);
            }
        }
    }
    p
}

/// `dvcheck emit-fingerprint <file>`: build the case in this (fresh) process and print the hash.
pub fn emit_fingerprint(path: &str) -> i32 {
    let Ok(txt) = std::fs::read_to_string(path) else { return 2 };
    let Ok(case) = serde_json::from_str::<Case>(&txt) else { return 2 };
    println!("{}", one_hash(&case));
    0
}

fn one_hash(case: &Case) -> String {
    ENTRY.with(|e| e.set(case.entry));
    let n = case.points.pts.len();
    let id: Vec<usize> = (0..n).collect();
    macro_rules! go {
        ($k:ty, $d:literal) => {
            fp_hash(&build::<$k, $d>(&case.points.pts, &id, case.salt, &case.opts))
        };
    }
    match (case.dim, case.robust) {
        (2, false) => go!(FastKernel<f64>, 2),
        (3, false) => go!(FastKernel<f64>, 3),
        (4, false) => go!(FastKernel<f64>, 4),
        (5, false) => go!(FastKernel<f64>, 5),
        (2, true) => go!(RobustKernel<f64>, 2),
        (3, true) => go!(RobustKernel<f64>, 3),
        (4, true) => go!(RobustKernel<f64>, 4),
        (5, true) => go!(RobustKernel<f64>, 5),
        _ => "Err".into(),
    }
}

fn run<K: Kern<D>, const D: usize>(case: &Case, log: &mut CaseLog) {
    let pts = &case.points.pts;
    let n = pts.len();
    if n < D + 1 {
        return;
    }
    log.class(format!("D{D}"));
    log.class(format!("kernel:{}", K::NAME));
    log.class(format!("family:{}", case.points.family));
    let id: Vec<usize> = (0..n).collect();
    let mk = |kind: &str, site: &str, msg: String| Violation::new(ID, kind, site, msg).fact("dim", D as u64).fact("kernel", K::NAME).fact("order", (case.opts.order % 4) as u64).fact("dedup", (case.opts.dedup % 6) as u64).fact("retry", (case.opts.retry % 6) as u64);
    // ---- (i) repeatability ----
    let a = build::<K, D>(pts, &id, case.salt, &case.opts);
    let b = build::<K, D>(pts, &id, case.salt, &case.opts);
    log.evals += 2;
    let ha = fp_hash(&a);
    if ha != fp_hash(&b) {
        log.violate(mk("not_repeatable", "same_thread", format!("two constructions from identical input and options differ: {} vs {}", ha, fp_hash(&b))));
        return;
    }
    log.class(if a.is_ok() { "outcome:Ok" } else { "outcome:Err" });
    if case.cross_process {
        // 8 concurrent threads
        let results: Vec<String> = std::thread::scope(|sc| {
            let hs: Vec<_> = (0..8).map(|_| sc.spawn(|| { ENTRY.with(|e| e.set(case.entry)); fp_hash(&build::<K, D>(pts, &id, case.salt, &case.opts)) })).collect();
            hs.into_iter().map(|h| h.join().unwrap_or_else(|_| "panic".into())).collect()
        });
        log.evals += 8;
        if let Some(bad) = results.iter().find(|r| **r != ha) {
            log.violate(mk("not_repeatable", "threads", format!("concurrent construction differs: {} vs {}", ha, bad)));
            return;
        }
        // a fresh child process
        let dir = std::env::temp_dir();
        let file = dir.join(format!("dvcheck-c14-{}-{:016x}.json", std::process::id(), hash_of(&serde_json::to_string(case).unwrap_or_default())));
        if std::fs::write(&file, serde_json::to_vec(case).unwrap_or_default()).is_ok() {
            if let Ok(exe) = std::env::current_exe() {
                if let Ok(o) = std::process::Command::new(exe).arg("emit-fingerprint").arg(&file).output() {
                    let got = String::from_utf8_lossy(&o.stdout).trim().to_string();
                    log.evals += 1;
                    if o.status.success() && got != ha {
                        log.violate(mk("not_repeatable", "child_process", format!("construction in a fresh process differs: {} vs {}", ha, got)));
                    }
                    log.class("cross_process_checked");
                }
            }
            let _ = std::fs::remove_file(&file);
        }
        if !log.violations.is_empty() {
            return;
        }
    }
    // ---- (ii) order independence for Hilbert / Morton / Lexicographic ----
    let distinct = {
        let mut ok = true;
        let eps = case.opts.dedup_eps().unwrap_or(0.0);
        'o: for i in 0..n {
            for j in i + 1..n {
                let d2: f64 = pts[i].iter().zip(&pts[j]).map(|(x, y)| (x - y) * (x - y)).sum();
                // coordinates must be pairwise distinct; with a dedup policy, pairwise distances must
                // exceed the tolerance (greedy epsilon dedup and first-occurrence-wins are order dependent by design)
                if pts[i].iter().zip(&pts[j]).all(|(x, y)| x == y) || (case.opts.dedup % 6 != 0 && d2.sqrt() <= eps * (1.0 + 1e-9) + 1e-300) || d2.sqrt() <= 1e-9 {
                    ok = false;
                    break 'o;
                }
            }
        }
        ok
    };
    let mut nontrivial = false;
    if case.opts.order % 4 != 0 && distinct {
        for &ps in &case.perm_seeds {
            let p = permutation(n, ps);
            let c = build::<K, D>(pts, &p, case.salt, &case.opts);
            log.evals += 1;
            if fp_hash(&c) != ha {
                log.violate(
                    mk("order_dependent", "permuted_input", format!("listing the same vertices in the order {:?} changes the result ({} vs {}) although the {:?} ordering is requested", p, ha, fp_hash(&c), case.opts.order()))
                        .fact("outcome_a", if a.is_ok() { "Ok" } else { "Err" })
                        .fact("outcome_b", if c.is_ok() { "Ok" } else { "Err" }),
                );
                return;
            }
        }
        log.class("order_independence_checked");
        if n >= 2 * D + 2 && a.is_ok() {
            nontrivial = true;
        }
    }
    // ---- (iii) general position: every successful configuration gives THE Delaunay triangulation ----
    if n <= 13 && binom(n, D + 2) <= 3000 && pts.iter().all(|p| p.iter().all(|x| x.is_finite())) {
        let sp = ScaledPoints::new(pts);
        if general_position(&sp) {
            log.class("general_position");
            let mut ok_configs = 0usize;
            let mut judge = |name: String, s: &Snap, log: &mut CaseLog| {
                // surviving vertex set may be smaller than the input (skips); compare with the reference of the survivors
                if s.cells.is_empty() {
                    return;
                }
                // only unperturbed results (bit-identical coordinates) are compared with the reference of the input points
                let spts = s.points();
                if !spts.iter().all(|q| pts.iter().any(|p| p.iter().zip(q).all(|(a, b)| a.to_bits() == b.to_bits()))) {
                    return;
                }
                let ssp = ScaledPoints::new(&spts);
                let Some(cells) = s.cell_indices() else { return };
                let reference = reference_dt(&ssp);
                let got = canonical_cells(&cells);
                log.evals += 1;
                ok_configs += 1;
                if got != reference {
                    // only a defect if the determinants involved are decidable: require no in-band pair
                    let all_decidable = cells.iter().all(|c| (0..spts.len()).all(|q| c.contains(&q) || crate::oracle::delaunay::pair_decidable(&spts, c, q)));
                    let lv = crate::oracle::levels::check(s, crate::oracle::levels::Opts::euclid(crate::oracle::levels::Guarantee::Pseudomanifold, false));
                    if all_decidable && lv.ok_upto(3) {
                        let rep = crate::oracle::delaunay::strict_violations(s, &ssp, &cells, 16);
                        let cause = crate::oracle::delaunay::classify_violations(&spts, &ssp, &cells, &rep);
                        let convex = crate::oracle::delaunay::convex_boundary_issues(&ssp, &cells).is_empty();
                        log.violate(
                            Violation::new(ID, "not_the_delaunay_triangulation", "general_position", format!("{name}: points in general position but the result ({} cells) is not the unique Delaunay triangulation ({} cells) of the surviving vertices", got.len(), reference.len()))
                                .fact("dim", D as u64)
                                .fact("cause", cause)
                                .fact("convex", convex)
                                .fact("config", name.clone())
                                // is the shuffled-retry driver (the only global verifier of a bulk build) in play?
                                .fact("retry_active", name.split("retry").nth(1).and_then(|t| t.chars().next()).and_then(|c| c.to_digit(10)).map_or(false, |r| match r % 6 {
                                    0 => false,
                                    1..=3 => true,
                                    _ => cfg!(debug_assertions),
                                })),
                        );
                    }
                }
            };
            if let Ok((_, s)) = &a {
                judge(format!("batch[{}]", case.opts.label()), s, log);
            }
            // other configurations on the same points
            for (order, dedup, retry) in [(0u8, 0u8, 0u8), (1, 1, 1), (2, 0, 2), (3, 4, 0)] {
                let o = OptSpec { order, dedup, retry, ..case.opts };
                if let Ok((_, s)) = build::<K, D>(pts, &id, case.salt, &o) {
                    judge(format!("batch[{}]", o.label()), &s, log);
                }
            }
            if let Some(s) = build_incremental::<K, D>(pts, &id, case.salt, &case.opts) {
                judge("incremental_insert".into(), &s, log);
            }
            if ok_configs >= 3 {
                nontrivial = true;
            }
        }
    }
    if nontrivial {
        let mut bits: Vec<Vec<u64>> = pts.iter().map(|p| p.iter().map(|x| x.to_bits()).collect()).collect();
        bits.sort();
        log.nontrivial_hash(hash_of(&(D, K::NAME, case.opts.label(), bits)));
    }
}

pub fn exec(case: &Case, log: &mut CaseLog) {
    if case.points.pts.iter().any(|p| p.len() != case.dim) {
        return;
    }
    ENTRY.with(|e| e.set(case.entry));
    log.class(format!("entry:{}", case.entry % 3));
    match (case.dim, case.robust) {
        (2, false) => run::<FastKernel<f64>, 2>(case, log),
        (3, false) => run::<FastKernel<f64>, 3>(case, log),
        (4, false) => run::<FastKernel<f64>, 4>(case, log),
        (5, false) => run::<FastKernel<f64>, 5>(case, log),
        (2, true) => run::<RobustKernel<f64>, 2>(case, log),
        (3, true) => run::<RobustKernel<f64>, 3>(case, log),
        (4, true) => run::<RobustKernel<f64>, 4>(case, log),
        (5, true) => run::<RobustKernel<f64>, 5>(case, log),
        _ => {}
    }
}

pub fn strategy(dim: usize, thorough: bool, general: bool) -> BoxedStrategy<Case> {
    let nmax = if general { (max_n(dim, false)).min(if dim >= 4 { 9 } else { 12 }) } else { max_n(dim, thorough).min(if dim >= 4 { 9 } else { 20 }) };
    (any::<bool>(), opt_spec(), any::<u64>(), point_set_from(dim, dim + 1, nmax, if general { GENERAL_FAMILIES } else { ALL_FAMILIES }), proptest::collection::vec(any::<u64>(), 2..5), prop_oneof![1 => Just(true), 7 => Just(false)], prop_oneof![2 => Just(0u8), 2 => Just(1u8), 1 => Just(2u8)])
        .prop_map(move |(robust, opts, salt, points, perm_seeds, cross_process, entry)| Case { dim, robust, opts, salt, points, perm_seeds, cross_process, entry })
        .boxed()
}

pub fn run_shard(ctx: &mut Ctx) {
    let thorough = ctx.tier == Tier::Thorough;
    for dim in 2..=5usize {
        let total = match (ctx.tier, dim) {
            (Tier::Quick, 2) => 500,
            (Tier::Quick, 3) => 400,
            (Tier::Quick, 4) => 120,
            (Tier::Quick, _) => 60,
            (Tier::Thorough, 2) => 8_000,
            (Tier::Thorough, 3) => 6_000,
            (Tier::Thorough, 4) => 3_000,
            (Tier::Thorough, _) => 1_500,
        };
        let n = ctx.share(total);
        ctx.run_cases(&format!("determinism_d{dim}"), n, strategy(dim, thorough, false), &|c, l| exec(c, l));
        ctx.run_cases(&format!("general_position_d{dim}"), n, strategy(dim, thorough, true), &|c, l| exec(c, l));
    }
}

pub fn replay(_label: &str, case: &Value, ctx: &mut Ctx) -> Option<Violation> {
    let c: Case = serde_json::from_value(case.clone()).ok()?;
    ctx.run_one("replay", &c, &|c, l| exec(c, l))
}

pub fn meta() -> super::Meta {
    super::Meta {
        id: ID,
        level: "exploration",
        rule: "case = batch entry point (options constructor, its construction-statistics twin, or the builder), point set (all families for determinism, general/fine families n <= 12 for the uniqueness part) with strategy-chosen UUIDs and data, kernel, ConstructionOptions with fixed seeds, 2-4 permutations of the input slice (reverse, rotations, seeded shuffles); (i) the same input and options built twice in one thread, and on 1/8 of the cases in 8 concurrent threads and in a freshly spawned child process, must give identical fingerprints (vertex set, cells as UUID sets, neighbour relation) and the same Ok/Err class; (ii) with Lexicographic / Morton / Hilbert ordering every permutation must give the identical fingerprint, asserted only for pairwise distinct coordinates with distances above the dedup tolerance; (iii) in exact general position every Ok result of the configured options, of four further ordering x dedup x retry configurations and of incremental insertion must equal the brute-force Delaunay triangulation of its surviving (unperturbed) vertices; evaluations = constructions compared; non-trivial = order-independence case with >= 2D+2 points and Ok, or >= 3 configurations judged against the reference; distinct by (D, kernel, options, sorted coordinates)",
        assumptions: &[
            "schedules: concurrent constructions are run, interleavings are not controlled (DESIGN section 5)",
            "results with perturbed vertices are not compared with the reference of the unperturbed input",
            "a mismatch with the reference is only reported when every in-sphere determinant of the result is decidable and the result passes independent L1-L3",
        ],
        exhaustive: false,
        max_shards: 8,
    }
}
