//! C02 — incremental insertion never leaves the validity stack broken.

use crate::dispatch_kd;
use crate::driver::ctx::{hash_of, CaseLog, Ctx, Tier, Violation};
use crate::gen::history::{check_policy, guarantee, op_strategy, start_strategy, start_world, vertex_model, Op, OpMix, Outcome, PointSpec, Start, World};
use crate::gen::world::{guarantee_of, Kern};
use crate::oracle::certify::{certify, CertOpts};
use crate::oracle::levels::{check, Opts};
use crate::oracle::snap::Snap;
use delaunay::core::delaunay_triangulation::DelaunayCheckPolicy;
use proptest::prelude::*;
use serde::{Deserialize, Serialize};
use serde_json::Value;

pub const ID: &str = "C02";

#[derive(Debug, Clone, Serialize, Deserialize)]
pub struct Case {
    pub dim: usize,
    pub robust: bool,
    pub salt: u64,
    pub start: Start,
    pub ops: Vec<Op>,
}

fn spec_name(p: &PointSpec) -> &'static str {
    match p {
        PointSpec::Grid(_) => "grid",
        PointSpec::AtVertex(_) => "at_vertex",
        PointSpec::NearVertex(..) => "near_vertex",
        PointSpec::EdgeMid(..) => "edge_mid",
        PointSpec::CellBary(..) => "cell_bary",
        PointSpec::BeyondHull(..) => "beyond_hull",
        PointSpec::OnHullPlane(_) => "on_hull_plane",
        PointSpec::Former(_) => "former",
        PointSpec::Extreme(..) => "extreme",
        PointSpec::AffineComb(_) => "affine_comb",
        PointSpec::NonFinite(..) => "non_finite",
    }
}

/// State invariant of C02: bootstrap or independent L1-L3 at the strength of the current guarantee.
pub fn state_problems<K: Kern<D>, const D: usize>(w: &World<K, D>, s: &Snap) -> Vec<(String, String)> {
    let g = guarantee_of(w.dt.topology_guarantee());
    let rep = check(s, Opts::euclid(g, false));
    let mut out = Vec::new();
    for i in &rep.issues {
        out.push((format!("L{}_{}", i.level, i.kind), i.detail.clone()));
    }
    if rep.bootstrap && s.verts.len() > D {
        // the property defines the bootstrap state as "fewer than D+1 vertices, no cells"
        out.push(("no_cells_with_D_plus_1_or_more_vertices".into(), format!("{} vertices but no cells: neither the bootstrap state nor a valid triangulation", s.verts.len())));
    }
    out
}

fn run<K: Kern<D>, const D: usize>(case: &Case, log: &mut CaseLog) {
    log.class(format!("D{D}"));
    log.class(format!("kernel:{}", K::NAME));
    log.class(if case.start.points.is_empty() { "start:empty" } else { "start:constructed" });
    let Some(mut w) = start_world::<K, D>(&case.start, case.salt) else {
        log.class("start:construction_err");
        return;
    };
    let mut before = w.snap();
    // the starting state itself must satisfy the invariant when it came from a constructor (C01's job);
    // if it does not, the history is not a C02 case
    if !state_problems(&w, &before).is_empty() {
        log.class("start:invalid(C01)");
        return;
    }
    let mut committed_after_cells = 0usize;
    let mut nonhappy = 0usize;
    let mut inserts = 0usize;
    for (step, op) in case.ops.iter().enumerate() {
        let had_cells = !before.cells.is_empty();
        let (res, out) = w.apply(&before, op);
        if matches!(out, Outcome::SetPanicked { .. }) {
            // debug_assert!(false) inside a policy setter (debug-assertion profile): C19's matter; the
            // triangulation may be half-updated, so this history ends here
            log.class("setter_panicked(C19)");
            break;
        }
        let after = w.snap();
        log.class(format!("op:{}", out.label()));
        let mut viol = |kind: &str, msg: String, log: &mut CaseLog| {
            log.violate(
                Violation::new(ID, kind, "insert", format!("step {step} ({}): {msg}", res.desc))
                    .fact("dim", D as u64)
                    .fact("kernel", K::NAME)
                    .fact("guarantee", format!("{:?}", w.dt.topology_guarantee()))
                    .fact("validation", format!("{:?}", w.dt.validation_policy()))
                    .fact("repair", format!("{:?}", w.dt.delaunay_repair_policy()))
                    .fact("outcome", out.label())
                    .fact("had_cells", had_cells)
                    .fact("spec", match op {
                        Op::Insert { p, .. } => spec_name(p),
                        _ => "setter",
                    }),
            );
        };
        if let Op::Insert { p, .. } = op {
            inserts += 1;
            log.evals += 1;
            if matches!(p, PointSpec::BeyondHull(..) | PointSpec::OnHullPlane(_) | PointSpec::AtVertex(_) | PointSpec::NearVertex(..) | PointSpec::EdgeMid(..) | PointSpec::AffineComb(_)) {
                nonhappy += 1;
            }
            let mb = vertex_model(&before);
            let ma = vertex_model(&after);
            match &out {
                Outcome::Inserted { key, uuid, coords, data, attempts } => {
                    if had_cells {
                        committed_after_cells += 1;
                    }
                    if *attempts > 1 {
                        nonhappy += 1;
                        log.class("perturbation_retry");
                    }
                    if res.adversarial {
                        viol("duplicate_uuid_accepted", format!("insertion with the UUID of a live vertex reported Inserted"), log);
                    }
                    // exactly one vertex added, with the caller's uuid and data
                    if after.verts.len() != before.verts.len() + 1 {
                        viol("vertex_count", format!("reported Inserted but vertex count went {} -> {}", before.verts.len(), after.verts.len()), log);
                    }
                    match after.verts.iter().find(|v| v.key == *key) {
                        None => viol("returned_key_dead", format!("returned key {:#x} does not resolve to a vertex", key), log),
                        Some(v) => {
                            if v.uuid != *uuid {
                                viol("returned_key_wrong_vertex", format!("returned key resolves to uuid {:032x}, caller's uuid {:032x}", v.uuid, uuid), log);
                            }
                            if v.data != *data {
                                viol("inserted_data_changed", format!("stored data {:?} != caller's {:?}", v.data, data), log);
                            }
                            // coordinates: bit-identical or within the documented perturbation
                            let maxdist = before.verts.iter().map(|b| b.coords.iter().zip(coords).map(|(x, y)| (x - y) * (x - y)).sum::<f64>().sqrt()).fold(0.0f64, f64::max).max(1e-15);
                            for (j, (a, b)) in v.coords.iter().zip(coords).enumerate() {
                                if a.to_bits() != b.to_bits() && !(*a == 0.0 && *b == 0.0) {
                                    // one perturbation (1e-8 x local scale x (axis+1)) by the insertion retry,
                                    // plus one more when the post-insertion repair falls back to the heuristic
                                    // rebuild, which re-inserts every vertex through the same retry ladder
                                    let bound = 2.0 * 1e-8 * (j as f64 + 1.0) * maxdist * 1.001 + 4.0 * f64::EPSILON * b.abs();
                                    if (a - b).abs() > bound {
                                        viol("inserted_displaced_beyond_perturbation", format!("coordinate {j}: stored {a:e}, offered {b:e}"), log);
                                    }
                                }
                            }
                        }
                    }
                    // all other vertices unchanged
                    for (u, val) in &mb {
                        match ma.get(u) {
                            Some(v2) if v2 == val => {}
                            Some(v2) if v2.1 == val.1 => {
                                // another vertex was displaced (heuristic rebuild / perturbation): C02 only
                                // demands that exactly one vertex is added, so this is recorded, not reported
                                log.class("other_vertex_perturbed_during_insert");
                            }
                            Some(v2) => {
                                viol("other_vertex_data_changed", format!("vertex {:032x} data changed from {:?} to {:?} during an insertion of another vertex", u, val.1, v2.1), log);
                                break;
                            }
                            None => {
                                let old: Vec<f64> = val.0.iter().map(|b| f64::from_bits(*b)).collect();
                                viol("other_vertex_removed", format!("vertex {:032x} at {:?} disappeared during an insertion of another vertex ({} -> {} vertices)", u, old, mb.len(), ma.len()), log);
                                break;
                            }
                        }
                    }
                    if ma.len() != mb.len() + 1 || !ma.contains_key(uuid) {
                        viol("vertex_set", format!("vertex set is not the old set plus the caller's vertex"), log);
                    }
                    // per-insertion Delaunay check policy EveryN(1): the Delaunay level must be certified
                    if w.dt.delaunay_check_policy() == check_policy(1) && matches!(w.dt.delaunay_check_policy(), DelaunayCheckPolicy::EveryN(_)) && !after.cells.is_empty() {
                        let g = guarantee_of(w.dt.topology_guarantee());
                        let cert = certify(&after, &CertOpts { levels: Opts::euclid(g, false), delaunay: true, convex: false, coverage: false, reference: false });
                        if let Some(dr) = &cert.delaunay {
                            if dr.has_decidable() {
                                log.violate(
                                    Violation::new(ID, "not_delaunay_after_checked_insertion", "insert", format!("step {step} ({}): check policy EveryN(1) but {} decidable strict violations remain", res.desc, dr.decidable().len()))
                                        .fact("dim", D as u64)
                                        .fact("cause", cert.violation_class),
                                );
                            }
                        }
                        log.class("check_policy_fired");
                    }
                }
                Outcome::Skipped { .. } | Outcome::InsertErr { .. } => {
                    nonhappy += 1;
                    // (state equality after a failed call is C03's claim, not C02's)
                    let _ = (&ma, &mb);
                }
                _ => {}
            }
        } else {
            nonhappy += 1;
        }
        // the state invariant after every call
        for (kind, detail) in state_problems(&w, &after) {
            viol(&kind, detail, log);
            break;
        }
        if !log.violations.is_empty() {
            break;
        }
        before = after;
    }
    if inserts > 0 && committed_after_cells >= 1 && nonhappy >= 1 {
        log.nontrivial_hash(hash_of(&serde_json::to_string(case).unwrap_or_default()));
    }
    let _ = guarantee(0);
}

pub fn exec(case: &Case, log: &mut CaseLog) {
    if !(2..=5).contains(&case.dim) || case.start.points.iter().any(|p| p.len() != case.dim) {
        return;
    }
    dispatch_kd!(case.dim, case.robust, run, case, log)
}

pub const MIX: OpMix = OpMix { insert: 12, remove: 0, flips: 0, repair: 0, setters: 2, clone: 0, adversarial_uuid: true };

pub fn strategy(dim: usize, max_ops: usize, thorough: bool) -> BoxedStrategy<Case> {
    let nmax = match dim {
        2 => 12,
        3 => 10,
        4 => 8,
        _ => 8,
    } + if thorough { 4 } else { 0 };
    (any::<bool>(), any::<u64>(), start_strategy(dim, nmax, 4), proptest::collection::vec(op_strategy(dim, MIX), 1..=max_ops))
        .prop_map(move |(robust, salt, start, ops)| Case { dim, robust, salt, start, ops })
        .boxed()
}

pub fn run_shard(ctx: &mut Ctx) {
    let thorough = ctx.tier == Tier::Thorough;
    let max_ops = if thorough { 40 } else { 12 };
    for dim in 2..=5usize {
        let total = match (ctx.tier, dim) {
            (Tier::Quick, 2) => 1500,
            (Tier::Quick, 3) => 1200,
            (Tier::Quick, 4) => 800,
            (Tier::Quick, _) => 500,
            (Tier::Thorough, 2) => 16_000,
            (Tier::Thorough, 3) => 12_000,
            (Tier::Thorough, 4) => 4_000,
            (Tier::Thorough, _) => 2_000,
        };
        let n = ctx.share(total);
        ctx.run_cases(&format!("insert_history_d{dim}"), n, strategy(dim, max_ops, thorough), &|c, l| exec(c, l));
    }
}

pub fn replay(_label: &str, case: &Value, ctx: &mut Ctx) -> Option<Violation> {
    let c: Case = serde_json::from_value(case.clone()).ok()?;
    ctx.run_one("replay", &c, &|c, l| exec(c, l))
}

pub fn meta() -> super::Meta {
    super::Meta {
        id: ID,
        level: "exploration",
        rule: "stateful: a start state (empty with any guarantee, or batch-constructed from an exact point family) followed by up to 12 (quick) / 40 (thorough) generated operations - insert / insert_with_statistics at points defined relative to the current state (grid, at/near a vertex on the duplicate-tolerance ladder, edge midpoint, cell barycentre, beyond a hull facet, on a hull facet's hyperplane, former position), with fresh / live / dead UUIDs, interleaved with the four policy setters; after every call the independent L1-L3 oracle (or the bootstrap rule) and the model of the vertex set are checked; evaluations = insert calls; non-trivial = history with >= 1 committed insertion after cells exist and >= 1 non-happy step (exterior / on-hull / duplicate / skip / retry / policy change); distinct by the whole case",
        assumptions: &[
            "vertex links are demanded per insertion only under PLManifoldStrict (what the guarantee promises during insertion)",
            "the per-insertion Delaunay level is demanded only under DelaunayCheckPolicy::EveryN(1), where every reported insertion is a checked one",
            "a start state that already violates the invariant is a C01 matter and the history is skipped",
        ],
        exhaustive: false,
        max_shards: 8,
    }
}
