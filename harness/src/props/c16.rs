//! C16 — toroidal construction wraps points correctly and closes the surface.

use crate::driver::ctx::{hash_of, CaseLog, Ctx, Tier, Violation};
use crate::exact::bigint::{BigInt, Rat};
use crate::gen::points::uuid_for;
use crate::gen::world::{guarantee_of, mk_vertex};
use crate::oracle::certify::{certify, CertOpts};
use crate::oracle::levels::{check, Opts};
use crate::oracle::snap::Snap;
use delaunay::core::builder::DelaunayTriangulationBuilder;
use delaunay::core::delaunay_triangulation::DelaunayTriangulation;
use delaunay::core::vertex::Vertex;
use delaunay::geometry::kernel::{FastKernel, RobustKernel};
use delaunay::topology::spaces::toroidal::ToroidalSpace;
use delaunay::topology::traits::topological_space::TopologicalSpace;
use proptest::prelude::*;
use serde::{Deserialize, Serialize};
use serde_json::Value;
use std::collections::{BTreeMap, BTreeSet};

pub const ID: &str = "C16";

#[derive(Debug, Clone, Serialize, Deserialize)]
pub struct Case {
    pub dim: usize,
    pub periodic: bool,
    pub robust: bool,
    pub periods: Vec<f64>,
    pub pts: Vec<Vec<f64>>,
    pub inserts: Vec<Vec<f64>>,
    pub salt: u64,
}

fn ulp(x: f64) -> f64 {
    let x = x.abs();
    if x == 0.0 {
        return f64::MIN_POSITIVE;
    }
    f64::from_bits(x.to_bits() + 1) - x
}

/// r in [0, L) and r congruent to x mod L within one ulp(L) in the torus metric (exact arithmetic)
fn wrapped_ok(x: f64, r: f64, l: f64) -> Result<(), String> {
    if !(r >= 0.0 && r < l) {
        return Err(format!("{r:e} is not in [0, {l:e})"));
    }
    let d = Rat::from_f64(x).sub(&Rat::from_f64(r));
    let lr = Rat::from_f64(l);
    let m0 = (d.to_f64() / l).round();
    let tol = Rat::from_f64(ulp(l));
    for dm in [-1.0, 0.0, 1.0] {
        let m = m0 + dm;
        if !m.is_finite() || m.abs() > 9.0e15 {
            continue;
        }
        let mi = Rat::from_int(BigInt::from_i128(m as i128));
        let diff = d.sub(&mi.mul(&lr)).abs();
        if diff.cmp(&tol) != std::cmp::Ordering::Greater {
            return Ok(());
        }
        // torus metric: r may sit at the other end of the box (r ~ 0 for x ~ L - tiny)
        let diff2 = diff.sub(&lr).abs();
        if diff2.cmp(&tol) != std::cmp::Ordering::Greater {
            return Ok(());
        }
    }
    Err(format!("{r:e} is not congruent to {x:e} modulo {l:e} (within one ulp)"))
}

fn check_vertex(orig: &[f64], stored: &[f64], periods: &[f64], what: &str, log: &mut CaseLog) {
    for j in 0..periods.len() {
        log.evals += 1;
        if let Err(e) = wrapped_ok(orig[j], stored[j], periods[j]) {
            log.violate(
                Violation::new(ID, "not_wrapped", what, format!("{what}: axis {j}: input {:e} stored as {:e} with period {:e}: {e}", orig[j], stored[j], periods[j]))
                    .fact("outside_box", !(stored[j] >= 0.0 && stored[j] < periods[j]))
                    .fact("equals_period", stored[j] == periods[j]),
            );
            return;
        }
    }
}

/// some D+1 of the points have an orientation determinant that is zero or inside the library's
/// tolerance band (exactly or nearly co-hyperplanar input)
fn near_cohyperplanar(pts: &[Vec<f64>], d: usize) -> bool {
    use crate::exact::band::{analyze, orientation_matrix, Decision};
    fn rec(pts: &[Vec<f64>], d: usize, start: usize, cur: &mut Vec<usize>) -> bool {
        if cur.len() == d + 1 {
            let m = orientation_matrix(&cur.iter().map(|&i| pts[i].clone()).collect::<Vec<_>>());
            return !matches!(analyze(&m, 1e-15).decision, Decision::Sign(_));
        }
        for i in start..pts.len() {
            cur.push(i);
            if rec(pts, d, i + 1, cur) {
                return true;
            }
            cur.pop();
        }
        false
    }
    pts.len() <= 14 && rec(pts, d, 0, &mut Vec::new())
}

fn pure_wrap<const D: usize>(case: &Case, log: &mut CaseLog) {
    let mut dom = [0.0f64; D];
    dom.copy_from_slice(&case.periods[..D]);
    let space = ToroidalSpace::<D>::new(dom);
    for p in case.pts.iter().chain(case.inserts.iter()) {
        let mut c: Vec<f64> = p.clone();
        space.canonicalize_point(&mut c);
        for j in 0..D {
            log.evals += 1;
            let w = space.wrap_coord::<f64>(j, p[j]);
            match w {
                None => log.violate(Violation::new(ID, "wrap_none", "wrap_coord", format!("wrap_coord({j}, {:e}) returned None for period {:e}", p[j], dom[j]))),
                Some(r) => {
                    if let Err(e) = wrapped_ok(p[j], r, dom[j]) {
                        log.violate(Violation::new(ID, "not_wrapped", "wrap_coord", format!("wrap_coord(axis {j}, {:e}) = {:e}, period {:e}: {e}", p[j], r, dom[j])).fact("equals_period", r == dom[j]).fact("outside_box", !(r >= 0.0 && r < dom[j])));
                    } else if space.wrap_coord::<f64>(j, r).map(f64::to_bits) != Some(r.to_bits()) && !(r == 0.0) {
                        log.violate(Violation::new(ID, "wrap_not_idempotent", "wrap_coord", format!("wrap({:e}) = {:e} but wrapping again gives {:?}", p[j], r, space.wrap_coord::<f64>(j, r))));
                    }
                    if c[j].to_bits() != r.to_bits() && !(c[j] == 0.0 && r == 0.0) {
                        log.violate(Violation::new(ID, "wrap_variants_disagree", "canonicalize_point", format!("canonicalize_point gives {:e}, wrap_coord gives {:e} for {:e}", c[j], r, p[j])));
                    }
                }
            }
        }
    }
}

fn run<K: crate::gen::world::Kern<D>, const D: usize>(case: &Case, log: &mut CaseLog) {
    if case.periods.len() != D || case.pts.iter().chain(case.inserts.iter()).any(|p| p.len() != D || p.iter().any(|x| !x.is_finite())) {
        return;
    }
    log.class(format!("D{D}:{}", if case.periodic { "periodic" } else { "wrapping" }));
    let valid_periods = case.periods.iter().all(|l| l.is_finite() && *l > 0.0);
    let mut dom = [0.0f64; D];
    dom.copy_from_slice(&case.periods);
    let verts: Vec<Vertex<f64, i32, D>> = case.pts.iter().enumerate().map(|(i, p)| mk_vertex::<i32, D>(p, uuid_for(case.salt, i), Some(i as i64 + 10))).collect();
    let k = K::make();
    let b = DelaunayTriangulationBuilder::from_vertices(&verts);
    let b = if case.periodic { b.toroidal_periodic(dom) } else { b.toroidal(dom) };
    let built: Result<DelaunayTriangulation<K, i32, (), D>, _> = b.build_with_kernel::<K, ()>(&k);
    log.evals += 1;
    if !valid_periods {
        log.class("invalid_period");
        if built.is_ok() {
            log.violate(Violation::new(ID, "invalid_period_accepted", "build", format!("periods {:?} accepted", case.periods)));
        }
        log.nontrivial_hash(hash_of(&format!("{:?}", case.periods)));
        return;
    }
    pure_wrap::<D>(case, log);
    let nontrivial = case.pts.iter().chain(case.inserts.iter()).any(|p| p.iter().zip(&case.periods).any(|(x, l)| !(*x >= 0.0 && *x < *l) || (*x - *l).abs() <= 2.0 * ulp(*l) || x.abs() <= 2.0 * ulp(*l)));
    let Ok(mut dt) = built else {
        log.class("build:Err");
        if nontrivial && !log.violations.is_empty() {
            return;
        }
        return;
    };
    log.class("build:Ok");
    let s = Snap::of(dt.tds());
    let by_uuid: BTreeMap<u128, usize> = (0..case.pts.len()).map(|i| (uuid_for(case.salt, i).as_u128(), i)).collect();
    let mut seen: BTreeSet<u128> = BTreeSet::new();
    for v in &s.verts {
        match by_uuid.get(&v.uuid) {
            None => log.violate(Violation::new(ID, "vertex_not_from_input", "build", format!("vertex {:?} has a UUID that is not in the input", v.coords))),
            Some(&i) => {
                if !seen.insert(v.uuid) {
                    log.violate(Violation::new(ID, "uuid_twice", "build", "an input UUID appears twice"));
                }
                if v.data != Some(i as i64 + 10) {
                    log.violate(Violation::new(ID, "data_changed", "build", format!("vertex #{i} data {:?}", v.data)));
                }
                // allow the documented construction perturbation on top of wrapping: compare against the stored value only for box membership + congruence within perturbation
                let direct = (0..D).all(|j| wrapped_ok(case.pts[i][j], v.coords[j], case.periods[j]).is_ok());
                if !direct {
                    // perturbed vertices: box membership is still required; congruence up to 1e-7 * max period
                    let maxl = case.periods.iter().cloned().fold(0.0, f64::max);
                    let space = ToroidalSpace::<D>::new(dom);
                    let near = (0..D).all(|j| {
                        let w = space.wrap_coord::<f64>(j, case.pts[i][j]).unwrap_or(f64::NAN);
                        let d = (w - v.coords[j]).abs();
                        d.min((case.periods[j] - d).abs()) <= 1e-7 * maxl * (D as f64 + 1.0)
                    });
                    // "displaced by the perturbation" needs an actual displacement: a coordinate stored
                    // bit for bit as it was given although it lies outside the box was never wrapped
                    // (and nothing else moved: a perturbation displaces every axis, so an axis that only
                    // looks unwrapped because the displacement happens to equal the period does not count)
                    let stored_unwrapped = (0..D).any(|j| v.coords[j].to_bits() == case.pts[i][j].to_bits() && !(case.pts[i][j] >= 0.0 && case.pts[i][j] < case.periods[j]))
                        && (0..D).all(|j| v.coords[j].to_bits() == case.pts[i][j].to_bits() || wrapped_ok(case.pts[i][j], v.coords[j], case.periods[j]).is_ok());
                    if stored_unwrapped {
                        check_vertex(&case.pts[i], &v.coords, &case.periods, "constructed vertex", log);
                    } else if near && (0..D).all(|j| v.coords[j] >= 0.0 && v.coords[j] < case.periods[j]) {
                        log.class("perturbed_vertex");
                    } else if near {
                        log.violate(Violation::new(ID, "perturbed_out_of_box", "constructed vertex", format!("input {:?} was wrapped and then displaced by the insertion perturbation to {:?}, outside the half-open box {:?}", case.pts[i], v.coords, case.periods)).fact("periodic", case.periodic).fact("lands_on_upper_face", (0..D).any(|j| v.coords[j] == case.periods[j] && ToroidalSpace::<D>::new(dom).wrap_coord::<f64>(j, case.pts[i][j]).map_or(false, |w| w >= case.periods[j] * (1.0 - 2f64.powi(-30))))));
                    } else {
                        check_vertex(&case.pts[i], &v.coords, &case.periods, "constructed vertex", log);
                    }
                }
            }
        }
    }
    if !log.violations.is_empty() {
        return;
    }
    // pairwise separation of the wrapped inputs in the torus metric (duplicates after wrapping are
    // legitimately skipped, which changes what "each input point once" can mean)
    let separated = {
        let space = ToroidalSpace::<D>::new(dom);
        let w: Vec<Vec<f64>> = case.pts.iter().map(|p| (0..D).map(|j| space.wrap_coord::<f64>(j, p[j]).unwrap_or(0.0)).collect()).collect();
        let mut ok = true;
        for i in 0..w.len() {
            for k in i + 1..w.len() {
                let d2: f64 = (0..D).map(|j| {
                    let d = (w[i][j] - w[k][j]).abs();
                    let d = d.min(case.periods[j] - d);
                    (d / case.periods[j]).powi(2)
                }).sum();
                if d2.sqrt() < 1e-6 {
                    ok = false;
                }
            }
        }
        ok
    };
    log.class(if separated { "inputs_separated_mod_L" } else { "inputs_with_duplicates_mod_L" });
    if case.periodic && !separated {
        // duplicates modulo the period: only the wrapping predicates above are judged
    } else if case.periodic {
        // quotient complex: structurally valid, no boundary, Euler characteristic 0, every input once.
        // On a torus with few vertices the quotient is not a simplicial complex on vertex SETS (a facet
        // is identified by its vertices together with their relative lattice offsets), so faces are
        // enumerated as translation-normalised (vertex, offset) tuples.
        let rep = check(&s, Opts { periodic: true, ..Opts::structural_only() });
        let structural_kinds = ["vertex_nonfinite", "vertex_uuid_nil", "vertex_uuid_version", "cell_uuid_nil", "cell_uuid_version", "cell_vertex_count", "cell_neighbor_len", "vertex_uuid_duplicate", "vertex_uuid_map", "vertex_key_map", "cell_uuid_duplicate", "cell_uuid_map", "cell_key_map", "cell_dangling_vertex", "incident_cell_dangling", "incident_cell_wrong", "vertex_count_mismatch", "cell_count_mismatch"];
        if let Some(i) = rep.issues.iter().find(|i| structural_kinds.contains(&i.kind)) {
            log.violate(Violation::new(ID, "periodic_structure", "build_periodic", format!("periodic result fails L{} {}: {}", i.level, i.kind, i.detail)));
        }
        let (facet_bad, boundary, chi, fvec) = periodic_faces::<D>(&s);
        if std::env::var_os("DVCHECK_DEBUG").is_some() {
            use delaunay::core::traits::boundary_analysis::BoundaryAnalysis;
            eprintln!("periodic Ok: cells {} verts {} lib boundary {:?} lib validate {:?} mine boundary {} chi {} f {:?}", s.cells.len(), s.verts.len(), dt.tds().number_of_boundary_facets(), dt.validate().map_err(|e| e.to_string()), boundary, chi, fvec);
            for c in &s.cells {
                eprintln!("  cell {:x?} off {:?} nb {:x?}", c.verts, c.periodic, c.neighbors);
            }
        }
        if let Some(msg) = facet_bad {
            log.violate(Violation::new(ID, "periodic_facet_degree", "build_periodic", msg));
        }
        let lib_ok = dt.validate().is_ok();
        if boundary != 0 {
            log.violate(Violation::new(ID, "periodic_has_boundary", "build_periodic", format!("{} boundary facets in a periodic triangulation (chi {}, f {:?}); the library's own validate() {}", boundary, chi, fvec, if lib_ok { "accepts it" } else { "rejects it" })).fact("lib_validate_ok", lib_ok));
        }
        if chi != 0 && !s.cells.is_empty() && boundary == 0 {
            log.violate(Violation::new(ID, "periodic_euler", "build_periodic", format!("Euler characteristic {} (f = {:?}), expected 0 for a torus", chi, fvec)).fact("lib_validate_ok", lib_ok));
        }
        if seen.len() != case.pts.len() {
            log.violate(Violation::new(ID, "periodic_missing_input", "build_periodic", format!("{} of {} input points present", seen.len(), case.pts.len())));
        }
        log.class("periodic:Ok");
    } else {
        // certified triangulation of the wrapped points
        let g = guarantee_of(dt.topology_guarantee());
        let cert = certify(&s, &CertOpts { levels: Opts::ball(g, true), delaunay: true, convex: true, coverage: false, reference: false });
        for (kind, detail) in cert.problems() {
            let cause = cert.violation_class;
            log.violate(Violation::new(ID, &format!("result_{kind}"), "build", format!("toroidal(wrapping) result: {detail}")).fact("cause", cause).fact("tiny_facet", cert.convex_min_rel_facet < 1e-4).fact("coplanar_input", super::c01::has_cohyperplanar_subset(&s.points()) || near_cohyperplanar(&s.points(), D)));
            break;
        }
        // later insertions are wrapped the same way
        for (i, p) in case.inserts.iter().enumerate() {
            let u = uuid_for(case.salt ^ 0x1115, i);
            let v = mk_vertex::<i32, D>(p, u, Some(500 + i as i64));
            log.evals += 1;
            if let Ok(key) = dt.insert(v) {
                if let Some(stored) = dt.tds().get_vertex_by_key(key) {
                    let c = stored.point().coords().to_vec();
                    if stored.uuid() != u || stored.data != Some(500 + i as i32) {
                        log.violate(Violation::new(ID, "insert_identity", "insert", "inserted vertex lost its UUID or data"));
                    }
                    let direct = (0..D).all(|j| wrapped_ok(p[j], c[j], case.periods[j]).is_ok());
                    if !direct {
                        let maxl = case.periods.iter().cloned().fold(0.0, f64::max);
                        let space = ToroidalSpace::<D>::new(dom);
                        let near = (0..D).all(|j| {
                            let w = space.wrap_coord::<f64>(j, p[j]).unwrap_or(f64::NAN);
                            let d = (w - c[j]).abs();
                            d.min((case.periods[j] - d).abs()) <= 1e-7 * maxl * (D as f64 + 1.0)
                        });
                        let stored_unwrapped = (0..D).any(|j| c[j].to_bits() == p[j].to_bits() && !(p[j] >= 0.0 && p[j] < case.periods[j]))
                            && (0..D).all(|j| c[j].to_bits() == p[j].to_bits() || wrapped_ok(p[j], c[j], case.periods[j]).is_ok());
                        if stored_unwrapped {
                            check_vertex(p, &c, &case.periods, "inserted vertex", log);
                        } else if near && !(0..D).all(|j| c[j] >= 0.0 && c[j] < case.periods[j]) {
                            log.violate(Violation::new(ID, "perturbed_out_of_box", "inserted vertex", format!("input {:?} was wrapped and then displaced by the insertion perturbation to {:?}, outside the half-open box {:?}", p, c, case.periods)).fact("periodic", case.periodic).fact("lands_on_upper_face", (0..D).any(|j| c[j] == case.periods[j] && ToroidalSpace::<D>::new(dom).wrap_coord::<f64>(j, p[j]).map_or(false, |w| w >= case.periods[j] * (1.0 - 2f64.powi(-30))))));
                        } else if !near {
                            check_vertex(p, &c, &case.periods, "inserted vertex", log);
                        }
                    }
                    log.class("insert:Ok");
                }
            } else {
                log.class("insert:Err");
            }
        }
    }
    if nontrivial {
        log.nontrivial_hash(hash_of(&serde_json::to_string(case).unwrap_or_default()));
    }
}

/// Faces of a periodic quotient complex as translation-normalised (vertex key, lattice offset)
/// tuples.  Returns (first facet of degree > 2, number of facets of degree 1, chi, f-vector).
fn periodic_faces<const D: usize>(s: &Snap) -> (Option<String>, usize, i64, Vec<i64>) {
    let mut faces: Vec<BTreeMap<Vec<(u64, Vec<i16>)>, usize>> = vec![BTreeMap::new(); D + 1];
    for c in &s.cells {
        if c.verts.len() != D + 1 {
            continue;
        }
        let offs: Vec<Vec<i16>> = match &c.periodic {
            Some(p) if p.len() == D + 1 => p.iter().map(|o| o.iter().map(|&x| x as i16).collect()).collect(),
            _ => vec![vec![0i16; D]; D + 1],
        };
        for mask in 1u32..(1 << (D + 1)) {
            let k = mask.count_ones() as usize - 1;
            let mut f: Vec<(u64, Vec<i16>)> = (0..=D).filter(|i| mask & (1 << i) != 0).map(|i| (c.verts[i], offs[i].clone())).collect();
            f.sort();
            let anchor = f[0].1.clone();
            for e in f.iter_mut() {
                for (a, b) in e.1.iter_mut().zip(&anchor) {
                    *a -= *b;
                }
            }
            f.sort();
            *faces[k].entry(f).or_default() += 1;
        }
    }
    let mut bad = None;
    let mut boundary = 0usize;
    if D >= 1 {
        for (f, n) in &faces[D - 1] {
            if *n > 2 && bad.is_none() {
                bad = Some(format!("lifted facet {:x?} is shared by {} cells", f, n));
            }
            if *n == 1 {
                boundary += 1;
            }
        }
    }
    let fvec: Vec<i64> = faces.iter().map(|m| m.len() as i64).collect();
    let chi = fvec.iter().enumerate().map(|(k, &f)| if k % 2 == 0 { f } else { -f }).sum();
    (bad, boundary, chi, fvec)
}

pub fn exec(case: &Case, log: &mut CaseLog) {
    match (case.dim, case.robust) {
        (2, false) => run::<FastKernel<f64>, 2>(case, log),
        (3, false) => run::<FastKernel<f64>, 3>(case, log),
        (2, true) => run::<RobustKernel<f64>, 2>(case, log),
        (3, true) => run::<RobustKernel<f64>, 3>(case, log),
        _ => {}
    }
}

fn period() -> BoxedStrategy<f64> {
    prop_oneof![
        4 => Just(1.0f64),
        2 => (-4i32..=6).prop_map(|k| 2f64.powi(k)),
        1 => Just(0.3f64),
        1 => Just(7.25f64),
        1 => Just(1e-3f64),
        1 => Just(1e6f64),
    ]
    .boxed()
}

/// coordinate as (integer multiple + fraction) of the period, plus special values
fn coord() -> BoxedStrategy<(i64, u8)> {
    (prop_oneof![6 => Just(0i64), 2 => -3i64..=3, 1 => (0u32..40).prop_map(|k| 1i64 << k), 1 => (0u32..40).prop_map(|k| -(1i64 << k))], 0u8..24).boxed()
}

fn make_coord(l: f64, a: i64, f: u8) -> f64 {
    let frac = match f {
        0 => 0.0,
        1 => 0.5,
        2 => 0.25,
        3 => 0.75,
        4 => 0.125,
        5 => 0.3,
        6 => 0.9,
        7 => 0.0625,
        8 => 0.6,
        9 => 0.45,
        10 => 0.8125,
        11 => 0.1,
        12 => 1e-17,
        13 => -1e-17,
        14 => 1e-300,
        15 => -1e-300,
        16 => -0.0,
        17 => 1.0 - f64::EPSILON / 2.0,
        18 => 1.0 + f64::EPSILON,
        19 => 0.37,
        20 => 0.71,
        21 => 0.21,
        22 => 0.55,
        _ => 0.95,
    };
    (a as f64 + frac) * l
}

pub fn strategy(dim: usize, periodic: bool, invalid: bool) -> BoxedStrategy<Case> {
    let periods = if invalid {
        proptest::collection::vec(prop_oneof![Just(0.0f64), Just(-1.0), Just(f64::NAN), Just(f64::INFINITY), Just(1.0)], dim).boxed()
    } else {
        proptest::collection::vec(period(), dim).boxed()
    };
    (any::<bool>(), periods, proptest::collection::vec(proptest::collection::vec(coord(), dim), dim + 1..=10), proptest::collection::vec(proptest::collection::vec(coord(), dim), 0..4), any::<u64>())
        .prop_map(move |(robust, periods, raw, ins, salt)| {
            let mk = |rows: &Vec<Vec<(i64, u8)>>| -> Vec<Vec<f64>> { rows.iter().map(|r| r.iter().enumerate().map(|(j, &(a, f))| make_coord(if periods[j].is_finite() && periods[j] > 0.0 { periods[j] } else { 1.0 }, a, f)).collect()).collect() };
            Case { dim, periodic, robust, pts: mk(&raw), inserts: mk(&ins), periods, salt }
        })
        .boxed()
}

pub fn run_shard(ctx: &mut Ctx) {
    let t = |q: u32, th: u32| ctx.tier.pick(q, th);
    let plan = [(2usize, false, t(2500, 50_000)), (3, false, t(1500, 30_000)), (2, true, t(600, 12_000))];
    for (dim, periodic, total) in plan {
        let n = ctx.share(total);
        ctx.run_cases(&format!("toroidal_d{dim}_{}", if periodic { "periodic" } else { "wrapping" }), n, strategy(dim, periodic, false), &|c, l| exec(c, l));
    }
    let n = ctx.share(ctx.tier.pick(200, 2000));
    ctx.run_cases("invalid_periods_d2", n, strategy(2, false, true), &|c, l| exec(c, l));
    let _ = Tier::Quick;
}

pub fn replay(_label: &str, case: &Value, ctx: &mut Ctx) -> Option<Violation> {
    let c: Case = serde_json::from_value(case.clone()).ok()?;
    ctx.run_one("replay", &c, &|c, l| exec(c, l))
}

pub fn meta() -> super::Meta {
    super::Meta {
        id: ID,
        level: "exploration",
        rule: "case = period vector (1, powers of two 2^-4..2^6, 0.3, 7.25, 1e-3, 1e6, anisotropic; an invalid-period family with 0, negative, NaN, inf) and points written as (integer multiple + fraction) of the period with multiples 0, +-1..3, +-2^k (k < 40) and fractions incl. 0, -0.0, +-1e-17, +-1e-300, 1-ulp, 1+ulp; builder .toroidal (D=2,3) and .toroidal_periodic (D=2), both kernels, then insertions of further such points; oracle: every stored coordinate in [0, L) and congruent to its input modulo L within one ulp(L) in exact rational arithmetic (documented perturbation tolerated), UUID and data preserved, wrap_coord / canonicalize_point exact, idempotent and mutually consistent, the wrapped result certified like a C01 result, later insert() wrapped the same way; periodic mode on Ok: independent L1/L2 with self-neighbours allowed, no boundary facets, Euler characteristic 0, every input present once; invalid periods must be rejected; evaluations = coordinates and builds judged; non-trivial = case with a coordinate outside [0,L) or within 2 ulp of a face of the box; distinct by the whole case",
        assumptions: &[
            "Err is acceptable for any toroidal build (D=3 periodic is excluded as the property says)",
            "a stored vertex may deviate from the exact wrap by the documented perturbation (1e-8 x local scale), but never leaves the box",
        ],
        exhaustive: false,
        max_shards: 8,
    }
}
