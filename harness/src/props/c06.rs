//! C06 — vertex removal yields a valid triangulation minus that vertex, or no change.

use crate::dispatch_kd;
use crate::driver::ctx::{hash_of, CaseLog, Ctx, Tier, Violation};
use crate::gen::history::{op_strategy, start_strategy, start_world, vertex_model, Op, OpMix, Outcome, Start};
use crate::gen::world::{guarantee_of, Kern};
use crate::oracle::certify::{certify, CertOpts};
use crate::oracle::fingerprint::diff;
use crate::oracle::levels::Opts;
use delaunay::core::delaunay_triangulation::DelaunayRepairPolicy;
use delaunay::core::operations::TopologicalOperation;
use proptest::prelude::*;
use serde::{Deserialize, Serialize};
use serde_json::Value;

pub const ID: &str = "C06";

#[derive(Debug, Clone, Serialize, Deserialize)]
pub struct Case {
    pub dim: usize,
    pub robust: bool,
    pub salt: u64,
    pub start: Start,
    pub ops: Vec<Op>,
    /// after the generated ops, remove every remaining vertex one by one (in selector order)
    pub drain: bool,
}

fn run<K: Kern<D>, const D: usize>(case: &Case, log: &mut CaseLog) {
    log.class(format!("D{D}"));
    log.class(format!("kernel:{}", K::NAME));
    let Some(mut w) = start_world::<K, D>(&case.start, case.salt) else {
        log.class("start:construction_err");
        return;
    };
    let mut before = w.snap();
    if !super::c02::state_problems(&w, &before).is_empty() {
        log.class("start:invalid(C01)");
        return;
    }
    let mut ops = case.ops.clone();
    if case.drain {
        for _ in 0..before.verts.len() + 2 {
            ops.push(Op::Remove { v: 0, unknown: false });
        }
    }
    let mut nontrivial = false;
    let mut stop = false;
    let mut injected_removals = 0u32;
    for (step, op) in ops.iter().enumerate() {
        // classification of the target before the call
        let mut target_info = (false, false, 0usize); // (on_hull, simplex_star, star size)
        if let Op::Remove { v, unknown: false } = op {
            if !before.verts.is_empty() {
                let t = &before.verts[crate::gen::world::pick(*v, before.verts.len())];
                let star: Vec<&crate::oracle::snap::SnapCell> = before.cells.iter().filter(|c| c.verts.contains(&t.key)).collect();
                let on_hull = before.cell_indices().map_or(false, |cells| {
                    let vi = before.vindex();
                    let ti = vi[&t.key];
                    crate::oracle::delaunay::boundary_facets(&cells).iter().any(|(f, _)| f.contains(&ti))
                });
                target_info = (on_hull, star.len() == D + 1 && !on_hull, star.len());
            }
        }
        let fp_before = w.fingerprint(&before);
        // the Delaunay demand after a removal is only made when the state before it was Delaunay
        // (EveryN repair policies and policy switches legitimately leave non-Delaunay states behind)
        let pre_delaunay = if matches!(op, Op::Remove { .. }) && !before.cells.is_empty() {
            let g = guarantee_of(w.dt.topology_guarantee());
            let c = certify(&before, &CertOpts { levels: Opts::euclid(g, false), delaunay: true, convex: true, coverage: false, reference: false });
            c.delaunay.as_ref().map_or(false, |d| d.violations.is_empty()) && c.convex_decidable.is_empty() && c.convex_in_band == 0
        } else {
            false
        };
        // forced internal failures of this removal (feature-gated failpoints, one at a time, on forks):
        // whenever the call then reports Err the fork must be identical to the state before the call
        if matches!(op, Op::Remove { unknown: false, .. }) && injected_removals < 2 && !before.verts.is_empty() {
            injected_removals += 1;
            let mut dry = w.fork();
            delaunay::verif_failpoints::begin(None, 0);
            let dry_ok = crate::driver::ctx::guarded(|| dry.apply(&before, op)).is_ok();
            let rep = delaunay::verif_failpoints::end();
            if dry_ok && rep.hits > 0 {
                let stride = ((rep.hits + 11) / 12).max(1) as usize;
                for k in (1..=rep.hits).step_by(stride) {
                    for flavour in 0..2u8 {
                        let mut e = w.fork();
                        delaunay::verif_failpoints::begin(Some(k), flavour);
                        let r = crate::driver::ctx::guarded(|| e.apply(&before, op));
                        let fired = delaunay::verif_failpoints::end().fired;
                        let (Some(site), Ok((res_e, out_e))) = (fired, r) else { continue };
                        log.evals += 1;
                        log.class(format!("inject:{site}"));
                        nontrivial = true;
                        if let Outcome::RemoveErr { error } = &out_e {
                            let es = e.snap();
                            let fe = e.fingerprint(&es);
                            if fe != fp_before {
                                log.violate(
                                    Violation::new(ID, "changed_after_failed_removal", "remove_vertex", format!("step {step} ({}): with an internal failure forced at {site} (hit {k}/{}, flavour {flavour}) remove_vertex returned Err ({}) but the triangulation changed: {}", res_e.desc, rep.hits, error.chars().take(100).collect::<String>(), diff(&fp_before, &fe)))
                                        .fact("dim", D as u64)
                                        .fact("kernel", K::NAME)
                                        .fact("injected", true)
                                        .fact("site", site),
                                );
                            }
                        } else {
                            log.class("inject:absorbed");
                        }
                    }
                }
            }
            if !log.violations.is_empty() {
                break;
            }
        }
        let (res, out) = w.apply(&before, op);
        if matches!(out, Outcome::SetPanicked { .. }) {
            // debug_assert!(false) inside a policy setter (debug-assertion profile): C19's matter; the
            // triangulation may be half-updated, so this history ends here
            log.class("setter_panicked(C19)");
            break;
        }
        let after = w.snap();
        log.class(format!("op:{}", out.label()));
        let repair_on = w.dt.delaunay_repair_policy() != DelaunayRepairPolicy::Never && TopologicalOperation::FacetFlip.is_admissible_under(w.dt.topology_guarantee());
        let mk = |kind: &str, msg: String| {
            Violation::new(ID, kind, "remove_vertex", format!("step {step} ({}): {msg}", res.desc))
                .fact("dim", D as u64)
                .fact("kernel", K::NAME)
                .fact("guarantee", format!("{:?}", w.dt.topology_guarantee()))
                .fact("repair_on", repair_on)
                .fact("on_hull", target_info.0)
                .fact("simplex_star", target_info.1)
        };
        if let Op::Remove { .. } = op {
            log.evals += 1;
            match &out {
                Outcome::Removed { cells, uuid, known: true } => {
                    log.class(if target_info.0 { "removed:hull_vertex" } else if target_info.1 { "removed:simplex_star" } else { "removed:interior_fan" });
                    if target_info.0 || !target_info.1 {
                        nontrivial = true;
                    }
                    let _ = cells;
                    let mb = vertex_model(&before);
                    let ma = vertex_model(&after);
                    if ma.contains_key(uuid) {
                        log.violate(mk("vertex_still_present", format!("remove_vertex returned Ok but vertex {:032x} is still present", uuid)));
                    }
                    for (u, val) in &mb {
                        if u == uuid {
                            continue;
                        }
                        match ma.get(u) {
                            Some(v2) if v2 == val => {}
                            Some(_) => {
                                log.violate(mk("other_vertex_changed", format!("vertex {:032x} changed coordinates or data during the removal of another vertex", u)));
                                break;
                            }
                            None => {
                                log.violate(mk("other_vertex_lost", format!("vertex {:032x} disappeared during the removal of another vertex ({} -> {} vertices)", u, mb.len(), ma.len())));
                                break;
                            }
                        }
                    }
                    if ma.keys().any(|u| !mb.contains_key(u)) {
                        log.violate(mk("vertex_invented", "a vertex appeared during a removal".into()));
                    }
                    // levels
                    let probs = super::c02::state_problems(&w, &after);
                    if let Some((kind, detail)) = probs.first() {
                        match w.dt.as_triangulation().validate() {
                            Err(e) => log.violate(
                                mk("removal_result_fails_own_validate", format!("remove_vertex returned Ok but the library's own Triangulation::validate() rejects the result: {e}; independent oracle: {kind}: {detail}"))
                                    .fact("oracle_kind", kind.clone()),
                            ),
                            Ok(()) => log.violate(mk(kind, detail.clone())),
                        }
                    } else if !after.cells.is_empty() {
                        let g = guarantee_of(w.dt.topology_guarantee());
                        let cert = certify(&after, &CertOpts { levels: Opts::euclid(g, false), delaunay: repair_on && pre_delaunay, convex: true, coverage: false, reference: false });
                        if let Some(dr) = &cert.delaunay {
                            if dr.has_decidable() {
                                log.violate(mk("not_delaunay_after_removal", format!("automatic repair is enabled but {} decidable strict circumsphere violations remain", dr.decidable().len())).fact("cause", cert.violation_class));
                            }
                        }
                        if cert.convex_decidable.is_empty() {
                            log.class("result_convex");
                        } else {
                            // convexity is not C06's claim, but a non-convex state is no longer a
                            // triangulation the later Delaunay demands can be made of: stop here
                            log.class("result_nonconvex(recorded, history stopped)");
                            stop = true;
                        }
                    }
                }
                Outcome::Removed { cells, known: false, .. } => {
                    log.class("removed:unknown_vertex");
                    nontrivial = true;
                    if *cells != 0 {
                        log.violate(mk("unknown_vertex_nonzero", format!("removing an unknown vertex reported {} cells removed", cells)));
                    }
                    let fp_after = w.fingerprint(&after);
                    if fp_after != fp_before {
                        log.violate(mk("unknown_vertex_changed_state", format!("removing an unknown vertex changed the triangulation: {}", diff(&fp_before, &fp_after))));
                    }
                }
                Outcome::RemoveErr { error } => {
                    // "... or no change": a refused removal leaves everything as it was
                    log.class("removed:Err");
                    nontrivial = true;
                    let fp_after = w.fingerprint(&after);
                    if fp_after != fp_before {
                        log.violate(mk("changed_after_failed_removal", format!("remove_vertex returned Err ({}) but the triangulation changed: {}", error.chars().take(120).collect::<String>(), diff(&fp_before, &fp_after))).fact("injected", false));
                    }
                }
                _ => {}
            }
        }
        if !log.violations.is_empty() || stop {
            break;
        }
        before = after;
    }
    if nontrivial {
        log.nontrivial_hash(hash_of(&serde_json::to_string(case).unwrap_or_default()));
    }
}

pub fn exec(case: &Case, log: &mut CaseLog) {
    if !(2..=5).contains(&case.dim) || case.start.points.iter().any(|p| p.len() != case.dim) {
        return;
    }
    dispatch_kd!(case.dim, case.robust, run, case, log)
}

pub const MIX: OpMix = OpMix { insert: 4, remove: 10, flips: 0, repair: 0, setters: 1, clone: 0, adversarial_uuid: false };

pub fn strategy(dim: usize, max_ops: usize, thorough: bool) -> BoxedStrategy<Case> {
    let nmax = match dim {
        2 => 14,
        3 => 12,
        4 => 9,
        _ => 9,
    } + if thorough { 4 } else { 0 };
    (any::<bool>(), any::<u64>(), start_strategy(dim, nmax, 0), proptest::collection::vec(op_strategy(dim, MIX), 1..=max_ops), prop_oneof![3 => Just(false), 1 => Just(true)])
        .prop_map(move |(robust, salt, start, ops, drain)| Case { dim, robust, salt, start, ops, drain })
        .boxed()
}

pub fn run_shard(ctx: &mut Ctx) {
    let thorough = ctx.tier == Tier::Thorough;
    let max_ops = if thorough { 30 } else { 10 };
    for dim in 2..=5usize {
        let total = match (ctx.tier, dim) {
            (Tier::Quick, 2) => 1200,
            (Tier::Quick, 3) => 1000,
            (Tier::Quick, 4) => 500,
            (Tier::Quick, _) => 300,
            (Tier::Thorough, 2) => 30_000,
            (Tier::Thorough, 3) => 25_000,
            (Tier::Thorough, 4) => 12_000,
            (Tier::Thorough, _) => 8_000,
        };
        let n = ctx.share(total);
        ctx.run_cases(&format!("removal_history_d{dim}"), n, strategy(dim, max_ops, thorough), &|c, l| exec(c, l));
    }
}

pub fn replay(_label: &str, case: &Value, ctx: &mut Ctx) -> Option<Violation> {
    let c: Case = serde_json::from_value(case.clone()).ok()?;
    ctx.run_one("replay", &c, &|c, l| exec(c, l))
}

pub fn meta() -> super::Meta {
    super::Meta {
        id: ID,
        level: "exploration",
        rule: "stateful: a batch-constructed start state (exact point families, all guarantees, repair policy on/off) followed by generated remove_vertex calls (any live vertex by selector, unknown vertices with fresh or already-removed UUIDs) interleaved with insertions and policy setters, optionally draining the triangulation vertex by vertex down to the bootstrap state; after every successful removal: vertex gone, all other vertices bit-identical, independent L1-L3 (or bootstrap), exact Delaunay level when automatic repair is enabled; unknown vertex => Ok(0) and identical fingerprint; evaluations = remove_vertex calls; non-trivial = history removing a hull vertex, a vertex whose star is not a (D+1)-cell simplex star, or an unknown vertex; distinct by the whole case",
        assumptions: &[
            "the returned cell count is only demanded to be 0 for unknown vertices (the property fixes nothing else about it)",
            "convexity of the result is recorded, not demanded (it is C11's domain)",
            "state after Err is C03's claim",
        ],
        exhaustive: false,
        max_shards: 8,
    }
}
