//! C17 — spatial orderings are permutations, dedup keeps a valid subset, Hilbert index is a curve.

use crate::driver::ctx::{hash_of, CaseLog, Ctx, Tier, Violation};
use crate::exact::bigint::Rat;
use crate::gen::points::uuid_for;
use crate::gen::world::mk_vertex;
use delaunay::core::delaunay_triangulation::verif_hooks as hooks;
use delaunay::core::delaunay_triangulation::InsertionOrderStrategy;
use delaunay::core::util::deduplication::{dedup_vertices_epsilon, dedup_vertices_exact};
use delaunay::core::util::hilbert::{hilbert_index, hilbert_indices_prequantized, hilbert_quantize, hilbert_sorted_indices};
use delaunay::core::vertex::Vertex;
use proptest::prelude::*;
use serde::{Deserialize, Serialize};
use serde_json::Value;
use std::collections::{BTreeMap, HashSet};

pub const ID: &str = "C17";

#[derive(Debug, Clone, Serialize, Deserialize)]
pub enum Case {
    /// exhaustive Hilbert grid (dimension, bits)
    Grid { dim: usize, bits: u32 },
    /// vertex list for ordering / dedup
    List { dim: usize, pts: Vec<Vec<f64>>, eps: f64, salt: u64 },
    /// quantisation / sorted-indices probes
    Quant { dim: usize, pts: Vec<Vec<f64>>, lo: f64, hi: f64, bits: u32 },
}

fn bad(log: &mut CaseLog, kind: &str, site: &str, msg: String) {
    log.violate(Violation::new(ID, kind, site, msg));
}

// ------------------------------------------------------------------ Hilbert grid
fn grid<const D: usize>(bits: u32, log: &mut CaseLog) {
    let side = 1u64 << bits;
    let total = side.pow(D as u32);
    let mut cells: Vec<[u32; D]> = Vec::with_capacity(total as usize);
    for mut i in 0..total {
        let mut c = [0u32; D];
        for slot in c.iter_mut() {
            *slot = (i % side) as u32;
            i /= side;
        }
        cells.push(c);
    }
    let idx = match hilbert_indices_prequantized::<D>(&cells, bits) {
        Ok(v) => v,
        Err(e) => {
            bad(log, "hilbert_error", "hilbert_indices_prequantized", format!("D={D} bits={bits}: {e}"));
            return;
        }
    };
    log.evals += total;
    if idx.len() != cells.len() {
        bad(log, "hilbert_length", "hilbert_indices_prequantized", format!("D={D} bits={bits}: {} indices for {} cells", idx.len(), cells.len()));
        return;
    }
    // bijection onto [0, total)
    let mut inverse: Vec<Option<usize>> = vec![None; total as usize];
    for (ci, &h) in idx.iter().enumerate() {
        if h >= total as u128 {
            bad(log, "hilbert_out_of_range", "hilbert_index", format!("D={D} bits={bits}: cell {:?} has index {} >= {}", cells[ci], h, total));
            return;
        }
        if let Some(prev) = inverse[h as usize] {
            bad(log, "hilbert_not_injective", "hilbert_index", format!("D={D} bits={bits}: cells {:?} and {:?} share index {}", cells[prev], cells[ci], h));
            return;
        }
        inverse[h as usize] = Some(ci);
    }
    // consecutive indices are L1-adjacent cells
    for h in 1..total as usize {
        let a = cells[inverse[h - 1].unwrap()];
        let b = cells[inverse[h].unwrap()];
        let l1: u64 = a.iter().zip(b.iter()).map(|(x, y)| (*x as i64 - *y as i64).unsigned_abs()).sum();
        if l1 != 1 {
            bad(log, "hilbert_not_adjacent", "hilbert_index", format!("D={D} bits={bits}: indices {} and {} are cells {:?} and {:?} (L1 distance {})", h - 1, h, a, b, l1));
            return;
        }
    }
    // hilbert_index on the exact grid coordinates agrees with the prequantised index
    let maxv = (side - 1) as f64;
    let stride = (total / 4096).max(1) as usize;
    for ci in (0..cells.len()).step_by(stride) {
        let mut c = [0.0f64; D];
        for j in 0..D {
            c[j] = cells[ci][j] as f64;
        }
        if maxv > 0.0 {
            match hilbert_index::<f64, D>(&c, (0.0, maxv), bits) {
                Ok(h) if h == idx[ci] => {}
                Ok(h) => {
                    bad(log, "hilbert_index_mismatch", "hilbert_index", format!("D={D} bits={bits}: hilbert_index({:?}) = {} but prequantized gives {}", c, h, idx[ci]));
                    return;
                }
                Err(e) => {
                    bad(log, "hilbert_error", "hilbert_index", format!("D={D} bits={bits}: {e}"));
                    return;
                }
            }
            log.evals += 1;
        }
    }
    log.class(format!("grid_D{D}_bits{bits}"));
    log.nontrivial_hash(hash_of(&("grid", D, bits)));
}

// ------------------------------------------------------------------ lists
fn ident<const D: usize>(v: &Vertex<f64, i32, D>) -> (u128, Vec<u64>, Option<i32>) {
    (v.uuid().as_u128(), v.point().coords().iter().map(|x| x.to_bits()).collect(), v.data)
}

fn dist2_exact(a: &[f64], b: &[f64]) -> Rat {
    let mut acc = Rat::from_f64(0.0);
    for (x, y) in a.iter().zip(b) {
        let d = Rat::from_f64(*x).sub(&Rat::from_f64(*y));
        acc = acc.add(&d.mul(&d));
    }
    acc
}

/// -1: strictly closer than eps, +1: strictly farther, 0: within the rounding band of eps
fn cmp_eps(a: &[f64], b: &[f64], eps: f64) -> i32 {
    let d2 = dist2_exact(a, b);
    let e = Rat::from_f64(eps);
    let e2 = e.mul(&e);
    let lo = e2.mul(&Rat::from_f64(1.0 - 1e-12));
    let hi = e2.mul(&Rat::from_f64(1.0 + 1e-12));
    // absolute slack for catastrophic cancellation in the f64 evaluation: 8 ulp of the largest coordinate squared
    let m = a.iter().chain(b.iter()).fold(0.0f64, |m, x| m.max(x.abs()));
    let slack = Rat::from_f64((m * f64::EPSILON * 8.0).powi(2).min(f64::MAX));
    if d2.add(&slack).cmp(&lo) == std::cmp::Ordering::Less {
        -1
    } else if d2.cmp(&hi.add(&slack)) == std::cmp::Ordering::Greater {
        1
    } else {
        0
    }
}

fn coords_equal(a: &[f64], b: &[f64]) -> bool {
    a.iter().zip(b).all(|(x, y)| x == y) // +0.0 == -0.0, finite only
}

fn check_exact_dedup<const D: usize>(name: &str, input: &[Vertex<f64, i32, D>], out: &[Vertex<f64, i32, D>], first_occurrence: bool, log: &mut CaseLog) {
    log.evals += 1;
    let inset: HashSet<(u128, Vec<u64>, Option<i32>)> = input.iter().map(ident).collect();
    let mut seen_uuid = HashSet::new();
    for v in out {
        if !inset.contains(&ident(v)) {
            bad(log, "dedup_invented_vertex", name, format!("{name} returned a vertex that is not in the input: {:?}", v.point().coords()));
            return;
        }
        if !seen_uuid.insert(v.uuid()) {
            bad(log, "dedup_duplicated_vertex", name, format!("{name} returned the same input vertex twice"));
            return;
        }
    }
    // one representative per distinct coordinate tuple
    for (i, a) in out.iter().enumerate() {
        for b in &out[i + 1..] {
            if coords_equal(a.point().coords(), b.point().coords()) {
                bad(log, "dedup_exact_kept_duplicate", name, format!("{name} kept two vertices with equal coordinates {:?}", a.point().coords()));
                return;
            }
        }
    }
    for v in input {
        if !out.iter().any(|o| coords_equal(o.point().coords(), v.point().coords())) {
            bad(log, "dedup_exact_lost_tuple", name, format!("{name} dropped every vertex at {:?}", v.point().coords()));
            return;
        }
    }
    if first_occurrence {
        // the survivor of each tuple is its first occurrence and input order is preserved
        let mut expect: Vec<&Vertex<f64, i32, D>> = Vec::new();
        for v in input {
            if !expect.iter().any(|e| coords_equal(e.point().coords(), v.point().coords())) {
                expect.push(v);
            }
        }
        let same = expect.len() == out.len() && expect.iter().zip(out).all(|(e, o)| e.uuid() == o.uuid());
        if !same {
            bad(log, "dedup_exact_not_first_occurrence", name, format!("{name} did not keep the first occurrence of each coordinate tuple in input order"));
        }
    }
}

fn check_eps_dedup<const D: usize>(name: &str, input: &[Vertex<f64, i32, D>], out: &[Vertex<f64, i32, D>], eps: f64, log: &mut CaseLog) {
    log.evals += 1;
    let inset: HashSet<(u128, Vec<u64>, Option<i32>)> = input.iter().map(ident).collect();
    let mut seen_uuid = HashSet::new();
    for v in out {
        if !inset.contains(&ident(v)) {
            bad(log, "dedup_invented_vertex", name, format!("{name} returned a vertex that is not in the input: {:?}", v.point().coords()));
            return;
        }
        if !seen_uuid.insert(v.uuid()) {
            bad(log, "dedup_duplicated_vertex", name, format!("{name} returned the same input vertex twice"));
            return;
        }
    }
    for (i, a) in out.iter().enumerate() {
        for b in &out[i + 1..] {
            if cmp_eps(a.point().coords(), b.point().coords(), eps) < 0 {
                bad(log, "dedup_eps_survivors_too_close", name, format!("{name} (eps={eps:e}) kept {:?} and {:?} which are strictly closer than eps", a.point().coords(), b.point().coords()));
                return;
            }
        }
    }
    let out_uuids: HashSet<uuid::Uuid> = out.iter().map(|v| v.uuid()).collect();
    for v in input {
        if out_uuids.contains(&v.uuid()) {
            continue;
        }
        if !out.iter().any(|o| cmp_eps(o.point().coords(), v.point().coords(), eps) <= 0) {
            bad(log, "dedup_eps_dropped_without_neighbour", name, format!("{name} (eps={eps:e}) dropped {:?} although no survivor is within eps", v.point().coords()));
            return;
        }
    }
}

fn list<const D: usize>(pts: &[Vec<f64>], eps: f64, salt: u64, log: &mut CaseLog) {
    if pts.iter().any(|p| p.len() != D || p.iter().any(|x| !x.is_finite())) {
        return;
    }
    let input: Vec<Vertex<f64, i32, D>> = pts.iter().enumerate().map(|(i, p)| mk_vertex::<i32, D>(p, uuid_for(salt, i), Some(i as i64))).collect();
    let mut in_multi: Vec<(u128, Vec<u64>, Option<i32>)> = input.iter().map(ident).collect();
    in_multi.sort();
    // orderings are permutations
    for (name, strat) in [
        ("order:Input", InsertionOrderStrategy::Input),
        ("order:Lexicographic", InsertionOrderStrategy::Lexicographic),
        ("order:Morton", InsertionOrderStrategy::Morton),
        ("order:Hilbert", InsertionOrderStrategy::Hilbert),
    ] {
        let out = hooks::order_vertices(input.clone(), strat);
        log.evals += 1;
        let mut o: Vec<(u128, Vec<u64>, Option<i32>)> = out.iter().map(ident).collect();
        if name == "order:Input" {
            let same = out.len() == input.len() && out.iter().zip(&input).all(|(a, b)| ident(a) == ident(b));
            if !same {
                bad(log, "order_input_not_identity", name, "InsertionOrderStrategy::Input changed the list".into());
            }
        }
        o.sort();
        if o != in_multi {
            bad(log, "order_not_permutation", name, format!("{name} returned {} vertices for {} inputs or changed a vertex (not a permutation of the input multiset)", out.len(), input.len()));
        }
        if name == "order:Lexicographic" {
            for w in out.windows(2) {
                let (a, b) = (w[0].point().coords(), w[1].point().coords());
                if a.partial_cmp(b) == Some(std::cmp::Ordering::Greater) {
                    bad(log, "order_lexicographic_unsorted", name, format!("{:?} precedes {:?}", a, b));
                    break;
                }
            }
        }
    }
    // exact dedup
    check_exact_dedup("dedup_vertices_exact", &input, &dedup_vertices_exact(&input), true, log);
    check_exact_dedup("dedup_exact_sorted", &input, &hooks::dedup_exact_sorted(input.clone()), false, log);
    for cell in [1e-10, 1.0, eps.max(1e-300)] {
        check_exact_dedup("dedup_exact_grid", &input, &hooks::dedup_exact_grid(input.clone(), cell), false, log);
    }
    // epsilon dedup
    if eps >= 0.0 {
        check_eps_dedup("dedup_vertices_epsilon", &input, &dedup_vertices_epsilon(&input, eps), eps, log);
        check_eps_dedup("dedup_eps_n2", &input, &hooks::dedup_eps_n2(input.clone(), eps), eps, log);
        check_eps_dedup("dedup_eps_quantized", &input, &hooks::dedup_eps_quantized(input.clone(), eps), eps, log);
        let cell = if eps > 0.0 { eps } else { 1e-10 };
        check_eps_dedup("dedup_eps_grid", &input, &hooks::dedup_eps_grid(input.clone(), eps, cell), eps, log);
    }
    // classes
    let mut has_dup = false;
    let mut has_tie = false;
    for (i, a) in pts.iter().enumerate() {
        for b in &pts[i + 1..] {
            if coords_equal(a, b) {
                has_dup = true;
            } else if cmp_eps(a, b, eps) <= 0 {
                has_tie = true;
            }
        }
    }
    log.class(format!("list_D{D}"));
    if has_dup {
        log.class("list_with_exact_duplicates");
    }
    if has_tie {
        log.class("list_with_eps_close_pair");
    }
    if pts.iter().flatten().any(|x| *x == 0.0 && x.is_sign_negative()) {
        log.class("list_with_negative_zero");
    }
    if has_dup || has_tie {
        log.nontrivial_hash(hash_of(&(D, pts.iter().map(|p| p.iter().map(|x| x.to_bits()).collect::<Vec<_>>()).collect::<Vec<_>>(), eps.to_bits())));
    }
}

fn quant<const D: usize>(pts: &[Vec<f64>], lo: f64, hi: f64, bits: u32, log: &mut CaseLog) {
    if pts.iter().any(|p| p.len() != D) || !(lo.is_finite() && hi.is_finite()) || bits == 0 || bits > 31 || D as u32 * bits > 128 {
        return;
    }
    let maxq = (1u32 << bits) - 1;
    let arr: Vec<[f64; D]> = pts.iter().map(|p| <[f64; D]>::try_from(p.as_slice()).unwrap()).collect();
    let mut qs = Vec::new();
    for c in &arr {
        match hilbert_quantize::<f64, D>(c, (lo, hi), bits) {
            Ok(q) => {
                log.evals += 1;
                for j in 0..D {
                    if q[j] > maxq {
                        bad(log, "quantize_out_of_range", "hilbert_quantize", format!("q={:?} bits={bits}", q));
                        return;
                    }
                    if hi > lo {
                        if c[j] <= lo && q[j] != 0 {
                            bad(log, "quantize_no_clamp_low", "hilbert_quantize", format!("coordinate {} <= lo {} quantised to {}", c[j], lo, q[j]));
                            return;
                        }
                        if c[j] >= hi && q[j] != maxq {
                            bad(log, "quantize_no_clamp_high", "hilbert_quantize", format!("coordinate {} >= hi {} quantised to {} (max {})", c[j], hi, q[j], maxq));
                            return;
                        }
                    }
                }
                qs.push(q);
            }
            Err(e) => {
                bad(log, "hilbert_error", "hilbert_quantize", format!("{e}"));
                return;
            }
        }
    }
    // monotone per axis
    for j in 0..D {
        let mut order: Vec<usize> = (0..arr.len()).collect();
        order.sort_by(|&a, &b| arr[a][j].partial_cmp(&arr[b][j]).unwrap());
        for w in order.windows(2) {
            if arr[w[0]][j] < arr[w[1]][j] && qs[w[0]][j] > qs[w[1]][j] {
                bad(log, "quantize_not_monotone", "hilbert_quantize", format!("axis {j}: {} -> {}, {} -> {}", arr[w[0]][j], qs[w[0]][j], arr[w[1]][j], qs[w[1]][j]));
                return;
            }
        }
    }
    // sorted indices: a permutation, sorted by hilbert index, stable
    match hilbert_sorted_indices::<f64, D>(&arr, (lo, hi), bits) {
        Ok(ord) => {
            log.evals += 1;
            let mut s = ord.clone();
            s.sort_unstable();
            if s != (0..arr.len()).collect::<Vec<_>>() {
                bad(log, "sorted_indices_not_permutation", "hilbert_sorted_indices", format!("{:?}", ord));
                return;
            }
            let keys: Vec<u128> = arr.iter().map(|c| hilbert_index::<f64, D>(c, (lo, hi), bits).unwrap_or(u128::MAX)).collect();
            for w in ord.windows(2) {
                if keys[w[0]] > keys[w[1]] || (keys[w[0]] == keys[w[1]] && w[0] > w[1]) {
                    bad(log, "sorted_indices_unsorted", "hilbert_sorted_indices", format!("positions {} (key {}) before {} (key {})", w[0], keys[w[0]], w[1], keys[w[1]]));
                    return;
                }
            }
            let pre = hilbert_indices_prequantized::<D>(&qs, bits).unwrap_or_default();
            if pre.len() == keys.len() && pre != keys {
                bad(log, "prequantized_mismatch", "hilbert_indices_prequantized", "prequantised indices differ from per-point hilbert_index".into());
            }
        }
        Err(e) => bad(log, "hilbert_error", "hilbert_sorted_indices", format!("{e}")),
    }
    log.class(format!("quant_D{D}"));
    let mut k = BTreeMap::new();
    for q in &qs {
        *k.entry(q.to_vec()).or_insert(0usize) += 1;
    }
    if k.values().any(|&c| c > 1) {
        log.class("quant_with_ties");
        log.nontrivial_hash(hash_of(&("quant", D, bits, pts.iter().map(|p| p.iter().map(|x| x.to_bits()).collect::<Vec<_>>()).collect::<Vec<_>>())));
    }
}

pub fn exec(case: &Case, log: &mut CaseLog) {
    match case {
        Case::Grid { dim, bits } => match dim {
            1 => grid::<1>(*bits, log),
            2 => grid::<2>(*bits, log),
            3 => grid::<3>(*bits, log),
            4 => grid::<4>(*bits, log),
            5 => grid::<5>(*bits, log),
            _ => {}
        },
        Case::List { dim, pts, eps, salt } => match dim {
            2 => list::<2>(pts, *eps, *salt, log),
            3 => list::<3>(pts, *eps, *salt, log),
            4 => list::<4>(pts, *eps, *salt, log),
            5 => list::<5>(pts, *eps, *salt, log),
            _ => {}
        },
        Case::Quant { dim, pts, lo, hi, bits } => match dim {
            1 => quant::<1>(pts, *lo, *hi, *bits, log),
            2 => quant::<2>(pts, *lo, *hi, *bits, log),
            3 => quant::<3>(pts, *lo, *hi, *bits, log),
            4 => quant::<4>(pts, *lo, *hi, *bits, log),
            5 => quant::<5>(pts, *lo, *hi, *bits, log),
            _ => {}
        },
    }
}

fn coord_strategy() -> BoxedStrategy<f64> {
    prop_oneof![
        4 => (-4i32..=4).prop_map(|v| v as f64),
        2 => (-64i32..=64).prop_map(|v| v as f64 / 8.0),
        1 => Just(0.0f64),
        1 => Just(-0.0f64),
        1 => (-3i32..=3, prop_oneof![Just(1e-10f64), Just(5e-11), Just(1e-6), Just(1e-12)]).prop_map(|(k, s)| k as f64 * s),
        1 => (-300i32..=300, -3i32..=3).prop_map(|(e, m)| m as f64 * 2f64.powi(e)),
        1 => (1i32..=3).prop_map(|k| 1.0 + k as f64 * 1e-10),
    ]
    .boxed()
}

pub fn list_strategy(dim: usize, nmax: usize) -> BoxedStrategy<Case> {
    (proptest::collection::vec(proptest::collection::vec(coord_strategy(), dim), 0..=nmax), prop_oneof![Just(0.0f64), Just(1e-12), Just(1e-10), Just(1e-6), Just(0.5), Just(1.0), Just(3.0)], any::<u64>(), proptest::collection::vec(any::<u16>(), 0..6))
        .prop_map(move |(mut pts, eps, salt, dups)| {
            // plant exact duplicates of existing points
            for d in dups {
                if !pts.is_empty() {
                    let i = crate::gen::world::pick(d, pts.len());
                    let p = pts[i].clone();
                    pts.push(p);
                }
            }
            Case::List { dim, pts, eps, salt }
        })
        .boxed()
}

fn quant_strategy(dim: usize) -> BoxedStrategy<Case> {
    let maxbits = (128 / dim as u32).min(31);
    (proptest::collection::vec(proptest::collection::vec(-40i32..=40, dim), 1..40), -8i32..=8, 0i32..=16, 1u32..=maxbits)
        .prop_map(move |(raw, lo, w, bits)| Case::Quant {
            dim,
            pts: raw.iter().map(|r| r.iter().map(|&v| v as f64 / 4.0).collect()).collect(),
            lo: lo as f64,
            hi: (lo + w) as f64,
            bits,
        })
        .boxed()
}

pub fn run_shard(ctx: &mut Ctx) {
    // exhaustive grids, split over shards
    let extra = if ctx.tier == Tier::Thorough { 1 } else { 0 };
    let mut grids: Vec<(usize, u32)> = Vec::new();
    for (dim, maxbits) in [(1usize, 10u32), (2, 6), (3, 4), (4, 3), (5, 2)] {
        for bits in 1..=(maxbits + extra) {
            grids.push((dim, bits));
        }
    }
    for (i, (dim, bits)) in grids.iter().enumerate() {
        if i % ctx.nshards.max(1) == ctx.shard {
            ctx.run_one("hilbert_grid", &Case::Grid { dim: *dim, bits: *bits }, &|c, l| exec(c, l));
        }
    }
    let thorough = ctx.tier == Tier::Thorough;
    for dim in 2..=5usize {
        // the epsilon-dedup oracles are quadratic in the list length (exact rational distances)
        let n = ctx.share(ctx.tier.pick(2500, 20_000));
        ctx.run_cases(&format!("lists_d{dim}"), n, list_strategy(dim, if thorough { 120 } else { 60 }), &|c, l| exec(c, l));
    }
    for dim in 1..=5usize {
        let n = ctx.share(ctx.tier.pick(1000, 50_000));
        ctx.run_cases(&format!("quant_d{dim}"), n, quant_strategy(dim), &|c, l| exec(c, l));
    }
}

pub fn replay(_label: &str, case: &Value, ctx: &mut Ctx) -> Option<Violation> {
    let c: Case = serde_json::from_value(case.clone()).ok()?;
    ctx.run_one("replay", &c, &|c, l| exec(c, l))
}

pub fn meta() -> super::Meta {
    super::Meta {
        id: ID,
        level: "exploration",
        rule: "three generators: (1) exhaustive Hilbert grids - every cell of the 2^bits grid for D=1 (bits 1-10), 2 (1-6), 3 (1-4), 4 (1-3), 5 (1-2), one more bit each in thorough: bijection onto the index range, L1-adjacency of consecutive indices, agreement of hilbert_index with the prequantised index; (2) proptest vertex lists (D 2-5, ties, planted exact duplicates, signed zeros, 2^±300 magnitudes, near-epsilon pairs) through every ordering strategy and all seven dedup implementations with the permutation / subset / no-two-within-eps / dropped-has-neighbour oracles in exact rational arithmetic; (3) quantisation and sorted-index probes. evaluations = grid cells + implementation calls checked; non-trivial = a complete grid, or a list with an exact duplicate or a pair within eps, or a quantisation tie; distinct by content",
        assumptions: &[
            "epsilon comparisons within 1e-12 relative (plus 8 ulp of the largest coordinate) of eps^2 are 'in band': '<' vs '<=' at exactly eps is not demanded",
            "first-occurrence semantics demanded only for the public dedup_vertices_exact (documented); the batch variants are held to validity only",
            "private batch helpers are reached through the feature-gated verif_hooks re-exports",
        ],
        exhaustive: true,
        max_shards: 8,
    }
}
