//! C05 — structural and topological validators accept exactly the valid complexes
//! (single-fault and pair-of-faults enumeration on copies of library-produced triangulations).

use crate::driver::ctx::{guarded, hash_of, CaseLog, Ctx, Tier, Violation};
use crate::gen::points::{point_set_from, uuid_for, PointSet, EXACT_FAMILIES};
use crate::gen::world::{mk_point, mk_vertex};
use crate::oracle::levels::{check, Guarantee, Opts, Report};
use crate::oracle::snap::{ckey_from_u64, vkey_from_u64, Snap};
use delaunay::core::delaunay_triangulation::DelaunayTriangulation;
use delaunay::core::triangulation::TopologyGuarantee;
use delaunay::core::triangulation_data_structure::Tds;
use delaunay::geometry::kernel::FastKernel;
use proptest::prelude::*;
use serde::{Deserialize, Serialize};
use serde_json::Value;

pub const ID: &str = "C05";

type K = FastKernel<f64>;
type TdsD<const D: usize> = Tds<f64, i32, (), D>;

#[derive(Debug, Clone, Serialize, Deserialize)]
pub struct Case {
    pub dim: usize,
    pub salt: u64,
    pub guarantee: u8,
    pub points: PointSet,
    /// only these fault indices (empty = all); used by replays of single faults
    pub only: Vec<usize>,
    pub pairs: bool,
    /// instead of a batch build of `points`: a start state plus a history of library operations
    /// (removals, insertions, flips, repairs); the resulting triangulation is the instance
    #[serde(default)]
    pub history: Option<(crate::gen::history::Start, Vec<crate::gen::history::Op>)>,
}

#[derive(Debug, Clone, Serialize, Deserialize, PartialEq)]
pub enum Fault {
    NeighborDangling(u64, usize),
    NeighborOneWay(u64, usize),
    NeighborBothCleared(u64, usize),
    NeighborWrongSlot(u64, usize, usize),
    NeighborOnBoundary(u64, usize, u64),
    NeighborsDropped(u64),
    CellIsolated(u64),
    DuplicateCell(u64),
    CellRemovedRaw(u64),
    CellRemovedClean(u64),
    DetachedCell(u64),
    RepeatedVertex(u64, usize, usize),
    VertexReplaced(u64, usize, u64),
    VertexDeadKey(u64, usize),
    SwapVerticesOnly(u64, usize, usize),
    SwapConsistent(u64, usize, usize),
    VertexFlat(u64, u64),
    VertexInverted(u64, u64),
    VerticesIdentified(u64, u64),
    IsolatedVertex,
    NonFinite(u64, u8),
    VertexUuidNil(u64),
    CellUuidNil(u64),
    VertexUnmapped(u64),
    CellUnmapped(u64),
    IncidentDead(u64),
    IncidentWrong(u64, u64),
    IncidentNone(u64),
    IncidentOther(u64, u64),
}

fn apply<const D: usize>(t: &mut TdsD<D>, s: &Snap, f: &Fault, salt: u64) -> bool {
    let cell = |k: u64| ckey_from_u64(k);
    match f {
        Fault::NeighborDangling(c, i) => t.get_cell_by_key_mut(cell(*c)).map_or(false, |x| x.verif_set_neighbor_slot(*i, Some(ckey_from_u64(0x0000_0007_0000_7FF0)))),
        Fault::NeighborOneWay(c, i) => t.get_cell_by_key_mut(cell(*c)).map_or(false, |x| x.verif_set_neighbor_slot(*i, None)),
        Fault::NeighborBothCleared(c, i) => {
            let sc = s.cells.iter().find(|x| x.key == *c).unwrap();
            let Some(n) = sc.neighbors.as_ref().and_then(|n| n[*i]) else { return false };
            let sn = s.cells.iter().find(|x| x.key == n).unwrap();
            let Some(j) = sn.neighbors.as_ref().and_then(|nn| nn.iter().position(|x| *x == Some(*c))) else { return false };
            t.get_cell_by_key_mut(cell(*c)).map_or(false, |x| x.verif_set_neighbor_slot(*i, None)) && t.get_cell_by_key_mut(cell(n)).map_or(false, |x| x.verif_set_neighbor_slot(j, None))
        }
        Fault::NeighborWrongSlot(c, i, j) => {
            let sc = s.cells.iter().find(|x| x.key == *c).unwrap();
            let Some(nb) = sc.neighbors.as_ref() else { return false };
            let (a, b) = (nb[*i], nb[*j]);
            if a == b {
                return false;
            }
            t.get_cell_by_key_mut(cell(*c)).map_or(false, |x| x.verif_set_neighbor_slot(*i, b.map(ckey_from_u64)) && x.verif_set_neighbor_slot(*j, a.map(ckey_from_u64)))
        }
        Fault::NeighborOnBoundary(c, i, other) => t.get_cell_by_key_mut(cell(*c)).map_or(false, |x| x.verif_set_neighbor_slot(*i, Some(cell(*other)))),
        Fault::NeighborsDropped(c) => t.get_cell_by_key_mut(cell(*c)).map(|x| x.verif_clear_neighbors()).is_some(),
        Fault::CellIsolated(c) => {
            // clear every neighbour pointer of c and every back pointer: c becomes its own component
            let sc = s.cells.iter().find(|x| x.key == *c).unwrap();
            let Some(nb) = sc.neighbors.clone() else { return false };
            let mut any = false;
            for (i, n) in nb.iter().enumerate() {
                if let Some(n) = n {
                    any = true;
                    t.get_cell_by_key_mut(cell(*c)).map(|x| x.verif_set_neighbor_slot(i, None));
                    if let Some(sn) = s.cells.iter().find(|x| x.key == *n) {
                        if let Some(j) = sn.neighbors.as_ref().and_then(|nn| nn.iter().position(|x| *x == Some(*c))) {
                            t.get_cell_by_key_mut(cell(*n)).map(|x| x.verif_set_neighbor_slot(j, None));
                        }
                    }
                }
            }
            any
        }
        Fault::DuplicateCell(c) => {
            let Some(orig) = t.get_cell(cell(*c)).cloned() else { return false };
            let mut dup = orig;
            dup.verif_set_uuid_raw(uuid_for(salt ^ 0xd0b1e, *c as usize));
            t.verif_insert_cell_raw(dup);
            true
        }
        Fault::CellRemovedRaw(c) => t.verif_remove_cell_raw(cell(*c)),
        Fault::CellRemovedClean(c) => {
            // remove the cell and unwire it completely: back pointers cleared, incident cells re-pointed
            let sc = s.cells.iter().find(|x| x.key == *c).unwrap();
            if !t.verif_remove_cell_raw(cell(*c)) {
                return false;
            }
            for sn in &s.cells {
                if let Some(j) = sn.neighbors.as_ref().and_then(|nn| nn.iter().position(|x| *x == Some(*c))) {
                    t.get_cell_by_key_mut(cell(sn.key)).map(|x| x.verif_set_neighbor_slot(j, None));
                }
            }
            for v in &sc.verts {
                let other = s.cells.iter().find(|x| x.key != *c && x.verts.contains(v)).map(|x| cell(x.key));
                if let Some(x) = t.get_vertex_by_key_mut(vkey_from_u64(*v)) {
                    x.incident_cell = other;
                }
            }
            true
        }
        Fault::DetachedCell(c) => {
            // a translated copy of cell c on D+1 fresh vertices, wired to nothing: a second component
            let sc = s.cells.iter().find(|x| x.key == *c).unwrap();
            let vi = s.vindex();
            let Some(orig) = t.get_cell(cell(*c)).cloned() else { return false };
            let mut dup = orig;
            dup.verif_clear_neighbors();
            dup.verif_set_uuid_raw(uuid_for(salt ^ 0xde7a, *c as usize));
            let mut newkeys = Vec::new();
            for (i, v) in sc.verts.iter().enumerate() {
                let mut p = s.verts[vi[v]].coords.clone();
                p[0] += 4096.0;
                let nk = t.verif_insert_vertex_raw(mk_vertex::<i32, D>(&p, uuid_for(salt ^ 0xde7b, i), None));
                dup.verif_set_vertex_slot(i, nk);
                newkeys.push(nk);
            }
            let ck = t.verif_insert_cell_raw(dup);
            for nk in newkeys {
                if let Some(x) = t.get_vertex_by_key_mut(nk) {
                    x.incident_cell = Some(ck);
                }
            }
            true
        }
        Fault::RepeatedVertex(c, i, j) => {
            let sc = s.cells.iter().find(|x| x.key == *c).unwrap();
            t.get_cell_by_key_mut(cell(*c)).map_or(false, |x| x.verif_set_vertex_slot(*i, vkey_from_u64(sc.verts[*j])))
        }
        Fault::VertexReplaced(c, i, v) => t.get_cell_by_key_mut(cell(*c)).map_or(false, |x| x.verif_set_vertex_slot(*i, vkey_from_u64(*v))),
        Fault::VertexDeadKey(c, i) => t.get_cell_by_key_mut(cell(*c)).map_or(false, |x| x.verif_set_vertex_slot(*i, vkey_from_u64(0x0000_0009_0000_7FF1))),
        Fault::SwapVerticesOnly(c, i, j) => t.get_cell_by_key_mut(cell(*c)).map_or(false, |x| x.verif_swap_vertex_slots_only(*i, *j)),
        Fault::SwapConsistent(c, i, j) => {
            let sc = s.cells.iter().find(|x| x.key == *c).unwrap();
            let nb = sc.neighbors.clone();
            t.get_cell_by_key_mut(cell(*c)).map_or(false, |x| {
                let ok = x.verif_swap_vertex_slots_only(*i, *j);
                if let Some(nb) = nb {
                    x.verif_set_neighbor_slot(*i, nb[*j].map(ckey_from_u64));
                    x.verif_set_neighbor_slot(*j, nb[*i].map(ckey_from_u64));
                }
                ok
            })
        }
        Fault::VertexFlat(c, v) | Fault::VertexInverted(c, v) => {
            // move vertex v of cell c onto (flat) or across (inverted) the hyperplane of the opposite facet
            let sc = s.cells.iter().find(|x| x.key == *c).unwrap();
            let vi = s.vindex();
            let others: Vec<&Vec<f64>> = sc.verts.iter().filter(|k| *k != v).map(|k| &s.verts[vi[k]].coords).collect();
            let me = &s.verts[vi[v]].coords;
            let mut cen = vec![0.0; D];
            for o in &others {
                for j in 0..D {
                    cen[j] += o[j] / others.len() as f64;
                }
            }
            let target: Vec<f64> = match f {
                Fault::VertexFlat(..) => {
                    // an exact affine combination with dyadic weights of the facet vertices: 2*o0 - o1 (on the hyperplane)
                    (0..D).map(|j| if others.len() >= 2 { 2.0 * others[0][j] - others[1][j] } else { others[0][j] }).collect()
                }
                _ => (0..D).map(|j| 2.0 * cen[j] - me[j]).collect(),
            };
            t.get_vertex_by_key_mut(vkey_from_u64(*v)).map(|x| x.verif_set_point(mk_point::<D>(&target))).is_some()
        }
        Fault::VerticesIdentified(a, b) => {
            // replace vertex b by a in every cell containing b (pinches the complex)
            let mut any = false;
            for sc in &s.cells {
                if let Some(i) = sc.verts.iter().position(|k| k == b) {
                    if sc.verts.contains(a) {
                        continue; // would create a repeated vertex: a different fault class
                    }
                    any |= t.get_cell_by_key_mut(cell(sc.key)).map_or(false, |x| x.verif_set_vertex_slot(i, vkey_from_u64(*a)));
                }
            }
            any
        }
        Fault::IsolatedVertex => {
            let c: Vec<f64> = (0..D).map(|j| 1000.5 + j as f64).collect();
            t.verif_insert_vertex_raw(mk_vertex::<i32, D>(&c, uuid_for(salt ^ 0x150, 1), None));
            true
        }
        Fault::NonFinite(v, kind) => {
            let vi = s.vindex();
            let mut c = s.verts[vi[v]].coords.clone();
            c[0] = match kind % 3 {
                0 => f64::NAN,
                1 => f64::INFINITY,
                _ => f64::NEG_INFINITY,
            };
            t.get_vertex_by_key_mut(vkey_from_u64(*v)).map(|x| x.verif_set_point(mk_point::<D>(&c))).is_some()
        }
        Fault::VertexUuidNil(v) => t.get_vertex_by_key_mut(vkey_from_u64(*v)).map(|x| x.verif_set_uuid_raw(uuid::Uuid::nil())).is_some(),
        Fault::CellUuidNil(c) => t.get_cell_by_key_mut(cell(*c)).map(|x| x.verif_set_uuid_raw(uuid::Uuid::nil())).is_some(),
        Fault::VertexUnmapped(v) => {
            let vi = s.vindex();
            t.verif_unmap_vertex_uuid(&uuid::Uuid::from_u128(s.verts[vi[v]].uuid))
        }
        Fault::CellUnmapped(c) => {
            let sc = s.cells.iter().find(|x| x.key == *c).unwrap();
            t.verif_unmap_cell_uuid(&uuid::Uuid::from_u128(sc.uuid))
        }
        Fault::IncidentDead(v) => t.get_vertex_by_key_mut(vkey_from_u64(*v)).map(|x| x.incident_cell = Some(ckey_from_u64(0x0000_0007_0000_7FF3))).is_some(),
        Fault::IncidentWrong(v, c) | Fault::IncidentOther(v, c) => t.get_vertex_by_key_mut(vkey_from_u64(*v)).map(|x| x.incident_cell = Some(cell(*c))).is_some(),
        Fault::IncidentNone(v) => t.get_vertex_by_key_mut(vkey_from_u64(*v)).map(|x| x.incident_cell = None).is_some(),
    }
}

fn enumerate<const D: usize>(s: &Snap, cap: usize) -> Vec<Fault> {
    let mut out = Vec::new();
    let nc = s.cells.len();
    let stride = (nc / cap.max(1)).max(1);
    for (ci, c) in s.cells.iter().enumerate() {
        if ci % stride != 0 {
            continue;
        }
        let nb = c.neighbors.clone().unwrap_or_else(|| vec![None; D + 1]);
        let interior: Vec<usize> = (0..=D).filter(|&i| nb[i].is_some()).collect();
        let boundary: Vec<usize> = (0..=D).filter(|&i| nb[i].is_none()).collect();
        if let Some(&i) = interior.first() {
            out.push(Fault::NeighborDangling(c.key, i));
            out.push(Fault::NeighborOneWay(c.key, i));
            out.push(Fault::NeighborBothCleared(c.key, i));
        }
        if interior.len() >= 2 {
            out.push(Fault::NeighborWrongSlot(c.key, interior[0], interior[1]));
        } else if let (Some(&i), Some(&b)) = (interior.first(), boundary.first()) {
            out.push(Fault::NeighborWrongSlot(c.key, i, b));
        }
        if let Some(&b) = boundary.first() {
            if let Some(o) = s.cells.iter().find(|x| x.key != c.key) {
                out.push(Fault::NeighborOnBoundary(c.key, b, o.key));
            }
        }
        out.push(Fault::NeighborsDropped(c.key));
        out.push(Fault::CellIsolated(c.key));
        out.push(Fault::DuplicateCell(c.key));
        out.push(Fault::CellRemovedRaw(c.key));
        out.push(Fault::CellRemovedClean(c.key));
        out.push(Fault::DetachedCell(c.key));
        out.push(Fault::RepeatedVertex(c.key, 0, 1));
        if let Some(v) = s.verts.iter().find(|v| !c.verts.contains(&v.key)) {
            out.push(Fault::VertexReplaced(c.key, D, v.key));
        }
        out.push(Fault::VertexDeadKey(c.key, 0));
        out.push(Fault::SwapVerticesOnly(c.key, 0, 1));
        out.push(Fault::SwapConsistent(c.key, 0, D));
        out.push(Fault::VertexFlat(c.key, c.verts[0]));
        out.push(Fault::VertexInverted(c.key, c.verts[D]));
        out.push(Fault::CellUuidNil(c.key));
        out.push(Fault::CellUnmapped(c.key));
    }
    let vstride = (s.verts.len() / cap.max(1)).max(1);
    for (vi, v) in s.verts.iter().enumerate() {
        if vi % vstride != 0 {
            continue;
        }
        out.push(Fault::NonFinite(v.key, (vi % 3) as u8));
        out.push(Fault::VertexUuidNil(v.key));
        out.push(Fault::VertexUnmapped(v.key));
        out.push(Fault::IncidentDead(v.key));
        out.push(Fault::IncidentNone(v.key));
        if let Some(c) = s.cells.iter().find(|c| !c.verts.contains(&v.key)) {
            out.push(Fault::IncidentWrong(v.key, c.key));
        }
        if let Some(c) = s.cells.iter().rev().find(|c| c.verts.contains(&v.key) && Some(c.key) != v.incident_cell) {
            out.push(Fault::IncidentOther(v.key, c.key));
        }
        // identify v with a far (non-adjacent) vertex
        if let Some(u) = s.verts.iter().find(|u| u.key != v.key && !s.cells.iter().any(|c| c.verts.contains(&u.key) && c.verts.contains(&v.key))) {
            out.push(Fault::VerticesIdentified(v.key, u.key));
        }
    }
    out.push(Fault::IsolatedVertex);
    out
}

struct Verdicts {
    l1: bool,
    l2: bool,
    tds_validate: bool,
    l3: bool,
    completion: bool,
    tri_validate: bool,
    dt_validate: bool,
    dt_report: bool,
    dt_is_valid: bool,
    panics: Vec<String>,
}

fn library_verdicts<const D: usize>(t: &TdsD<D>, g: TopologyGuarantee) -> Verdicts {
    let mut panics = Vec::new();
    let mut run = |name: &str, f: &mut dyn FnMut() -> bool| -> bool {
        match guarded(|| f()) {
            Ok(b) => b,
            Err((loc, msg)) => {
                panics.push(format!("{name} panicked at {loc}: {msg}"));
                false
            }
        }
    };
    let l1 = run("Vertex/Cell::is_valid", &mut || t.vertices().all(|(_, v)| (*v).is_valid().is_ok()) && t.cells().all(|(_, c)| c.is_valid().is_ok()));
    let l2 = run("Tds::is_valid", &mut || t.is_valid().is_ok());
    let tds_validate = run("Tds::validate", &mut || t.validate().is_ok());
    let dt = DelaunayTriangulation::<K, i32, (), D>::from_tds_with_topology_guarantee(t.clone(), K::new(), g);
    let l3 = run("Triangulation::is_valid", &mut || dt.as_triangulation().is_valid().is_ok());
    let completion = run("Triangulation::validate_at_completion", &mut || dt.as_triangulation().validate_at_completion().is_ok());
    let tri_validate = run("Triangulation::validate", &mut || dt.as_triangulation().validate().is_ok());
    let dt_is_valid = run("DelaunayTriangulation::is_valid", &mut || dt.is_valid().is_ok());
    let dt_validate = run("DelaunayTriangulation::validate", &mut || dt.validate().is_ok());
    let dt_report = run("DelaunayTriangulation::validation_report", &mut || dt.validation_report().is_ok());
    Verdicts { l1, l2, tds_validate, l3, completion, tri_validate, dt_validate, dt_report, dt_is_valid, panics }
}

fn reference(s: &Snap, g: Guarantee) -> (Report, bool, bool, bool, bool) {
    // L3 with the library's documented Euler rule: chi = 1 with boundary, 1 + (-1)^D without
    let mut o = Opts::euclid(g, false);
    o.euler = false;
    o.band_positive = true;
    let rep = check(s, o);
    let l1 = rep.level_ok(1);
    let l2 = rep.level_ok(2);
    let d = s.dim as i64;
    let expected_chi = if s.cells.is_empty() {
        rep.chi
    } else if rep.boundary_facets == 0 {
        1 + if d % 2 == 0 { 1 } else { -1 }
    } else {
        1
    };
    // "every vertex must be incident to at least one cell" also holds for a cell-less complex:
    // the library's Level 3 rejects vertices without cells (pinned by its own unit test)
    let l3 = rep.level_ok(3) && (s.cells.is_empty() || rep.chi == expected_chi) && !(s.cells.is_empty() && !s.verts.is_empty());
    // completion: vertex links under PLManifold
    let comp = check(s, Opts { euler: false, ..Opts::euclid(g, true) });
    let completion_ok = !comp.has("vertex_link");
    (rep, l1, l2, l3, completion_ok)
}

fn judge<const D: usize>(t: &TdsD<D>, g: TopologyGuarantee, gref: Guarantee, desc: &str, log: &mut CaseLog) -> bool {
    let s = Snap::of(t);
    let (rep, r1, r2, r3, rcomp) = reference(&s, gref);
    let v = library_verdicts::<D>(t, g);
    log.evals += 1;
    if std::env::var("DVCHECK_C05_DEBUG").is_ok() {
        let pts = s.points();
        let sp = crate::exact::geom::ScaledPoints::new(&pts);
        let vi = s.vindex();
        eprintln!("== {desc}: ref l1 {r1} l2 {r2} l3 {r3} comp {rcomp} issues {:?}; lib l1 {} l2 {} l3 {} comp {}", rep.issues, v.l1, v.l2, v.l3, v.completion);
        for c in &s.cells {
            if c.verts.iter().all(|k| vi.contains_key(k)) {
                let idx: Vec<usize> = c.verts.iter().map(|k| vi[k]).collect();
                eprintln!("   cell {:#x} orient {} pts {:?}", c.key, sp.orient(&idx), idx.iter().map(|&i| &pts[i]).collect::<Vec<_>>());
            }
        }
    }
    let mk = |kind: &str, site: &str, msg: String| Violation::new(ID, kind, site, format!("{desc}: {msg}")).fact("dim", D as u64).fact("guarantee", format!("{g:?}")).fact("fault", desc.split('(').next().unwrap_or("").to_string());
    for p in &v.panics {
        log.violate(mk("validator_panicked", "validator", p.clone()));
    }
    if !v.panics.is_empty() {
        return false;
    }
    let first = rep.first();
    let mut ok = true;
    log.class(if !r1 {
        "ref:L1_broken"
    } else if !r2 {
        "ref:L2_broken"
    } else if !r3 {
        "ref:L3_broken"
    } else if rep.orient_in_band > 0 {
        "ref:orientation_in_band(not judged)"
    } else if !rcomp {
        "ref:completion_links_broken_only"
    } else {
        "ref:valid(harmless_fault_or_uncorrupted)"
    });
    // lowest broken level decides what is demanded
    if !r1 {
        if v.l1 {
            log.violate(mk("fault_not_rejected", "Vertex/Cell::is_valid", format!("element level broken ({first}) but every Vertex::is_valid / Cell::is_valid accepts")));
            ok = false;
        }
        if v.tds_validate || v.tri_validate || v.dt_validate {
            log.violate(mk("cumulative_accepts", "validate", format!("element level broken ({first}) but a cumulative validator accepts (Tds {}, Triangulation {}, Delaunay {})", v.tds_validate, v.tri_validate, v.dt_validate)));
            ok = false;
        }
    } else if !r2 {
        if !v.l1 {
            log.violate(mk("false_alarm", "Vertex/Cell::is_valid", format!("element level intact but an element validator rejects")));
            ok = false;
        }
        if v.l2 {
            log.violate(mk("fault_not_rejected", "Tds::is_valid", format!("structural level broken ({first}) but Tds::is_valid accepts")));
            ok = false;
        }
        if v.tds_validate || v.tri_validate || v.dt_validate {
            log.violate(mk("cumulative_accepts", "validate", format!("structural level broken ({first}) but a cumulative validator accepts (Tds {}, Triangulation {}, Delaunay {})", v.tds_validate, v.tri_validate, v.dt_validate)));
            ok = false;
        }
    } else {
        // L1, L2 intact
        if !v.l1 || !v.l2 || !v.tds_validate {
            log.violate(mk("false_alarm", "Tds::validate", format!("element and structural levels intact but a validator rejects (elements {}, Tds::is_valid {}, Tds::validate {}): {:?}", v.l1, v.l2, v.tds_validate, t.validate().err().map(|e| e.to_string()))));
            ok = false;
        }
        if !r3 {
            if v.l3 {
                log.violate(mk("fault_not_rejected", "Triangulation::is_valid", format!("manifold level broken ({first}, chi {}) but Triangulation::is_valid accepts", rep.chi)));
                ok = false;
            }
            if v.tri_validate || v.dt_validate {
                log.violate(mk("cumulative_accepts", "validate", format!("manifold level broken ({first}) but a cumulative validator accepts (Triangulation {}, Delaunay {})", v.tri_validate, v.dt_validate)));
                ok = false;
            }
        } else if rep.orient_in_band == 0 {
            if !v.l3 {
                let dt = DelaunayTriangulation::<K, i32, (), D>::from_tds_with_topology_guarantee(t.clone(), K::new(), g);
                log.violate(mk("false_alarm", "Triangulation::is_valid", format!("levels 1-3 intact (reference issues {:?}, chi {}, boundary facets {}) but Triangulation::is_valid rejects: {:?}", rep.kinds(), rep.chi, rep.boundary_facets, dt.as_triangulation().is_valid().err().map(|e| e.to_string()))));
                ok = false;
            }
            if rcomp != v.completion {
                log.violate(mk(if rcomp { "false_alarm" } else { "fault_not_rejected" }, "Triangulation::validate_at_completion", format!("vertex links {} by the reference but validate_at_completion says {}", if rcomp { "intact" } else { "broken" }, v.completion)));
                ok = false;
            }
            // cumulative = conjunction of its levels
            if v.tri_validate != (v.l1 && v.l2 && v.l3 && v.completion) {
                log.violate(mk("cumulative_not_conjunction", "Triangulation::validate", format!("Triangulation::validate = {} but its levels are {} {} {} {}", v.tri_validate, v.l1, v.l2, v.l3, v.completion)));
                ok = false;
            }
            if v.dt_validate != (v.tri_validate && v.dt_is_valid) {
                log.violate(mk("cumulative_not_conjunction", "DelaunayTriangulation::validate", format!("dt.validate() = {} but Triangulation::validate = {} and is_valid = {}", v.dt_validate, v.tri_validate, v.dt_is_valid)));
                ok = false;
            }
        }
    }
    // the diagnostic report is empty exactly when cumulative validation passes
    if v.dt_report != v.dt_validate {
        log.violate(mk("report_disagrees", "validation_report", format!("validation_report().is_ok() = {} but validate().is_ok() = {}", v.dt_report, v.dt_validate)).fact("report_ok", v.dt_report));
        ok = false;
    }
    ok
}

fn run<const D: usize>(case: &Case, log: &mut CaseLog) {
    log.class(format!("D{D}"));
    let g = match case.guarantee % 3 {
        0 => TopologyGuarantee::Pseudomanifold,
        1 => TopologyGuarantee::PLManifold,
        _ => TopologyGuarantee::PLManifoldStrict,
    };
    let (base, g): (TdsD<D>, TopologyGuarantee) = match &case.history {
        None => {
            let verts: Vec<_> = case.points.pts.iter().enumerate().map(|(i, p)| mk_vertex::<i32, D>(p, uuid_for(case.salt, i), Some(i as i64))).collect();
            let Ok(dt) = DelaunayTriangulation::<K, i32, (), D>::with_topology_guarantee(&K::new(), &verts, g) else {
                log.class("construction_err");
                return;
            };
            (dt.tds().clone(), g)
        }
        Some((start, ops)) => {
            log.class("instance:history");
            let Some(mut w) = crate::gen::history::start_world::<K, D>(start, case.salt) else {
                log.class("construction_err");
                return;
            };
            for op in ops {
                let before = w.snap();
                if guarded(|| w.apply(&before, op)).is_err() {
                    log.class("history_panicked(not judged)");
                    return;
                }
            }
            (w.dt.tds().clone(), w.dt.topology_guarantee())
        }
    };
    let gref = crate::gen::world::guarantee_of(g);
    let s0 = Snap::of(&base);
    if s0.cells.len() > 60 || s0.cells.is_empty() {
        return;
    }
    // (i) the library-produced triangulation itself: validators and reference must agree on it
    let (rep0, a, b, c, comp0) = reference(&s0, gref);
    if !judge::<D>(&base, g, gref, "uncorrupted triangulation", log) {
        return;
    }
    if !(a && b && c && comp0) || rep0.orient_in_band > 0 {
        log.class("instance_not_valid_by_reference(no faults injected)");
        return;
    }
    let faults = enumerate::<D>(&s0, 12);
    let mut nontrivial = 0usize;
    for (fi, f) in faults.iter().enumerate() {
        if !case.only.is_empty() && !case.only.contains(&fi) {
            continue;
        }
        let mut t = base.clone();
        if !apply::<D>(&mut t, &s0, f, case.salt) {
            continue;
        }
        let before = log.violations.len();
        judge::<D>(&t, g, gref, &format!("{:?}", f), log);
        nontrivial += 1;
        log.class(format!("fault:{}", format!("{:?}", f).split('(').next().unwrap_or("")));
        if log.violations.len() > before {
            // keep enumerating: different faults have different root causes
            if log.violations.len() > 12 {
                break;
            }
        }
    }
    if case.pairs && s0.cells.len() <= 12 && case.only.is_empty() {
        let sub: Vec<&Fault> = faults.iter().step_by((faults.len() / 24).max(1)).collect();
        let mut pairs = 0usize;
        'outer: for i in 0..sub.len() {
            for j in i + 1..sub.len() {
                let mut t = base.clone();
                if !apply::<D>(&mut t, &s0, sub[i], case.salt) {
                    continue;
                }
                // the second fault is described relative to the original snapshot; skip if it no longer applies
                if !guarded(|| apply::<D>(&mut t, &s0, sub[j], case.salt ^ 1)).unwrap_or(false) {
                    continue;
                }
                judge::<D>(&t, g, gref, &format!("{:?} + {:?}", sub[i], sub[j]), log);
                pairs += 1;
                if pairs >= 300 || log.violations.len() > 12 {
                    break 'outer;
                }
            }
        }
        log.class("pairs_enumerated");
    }
    if nontrivial > 0 {
        log.nontrivial_hash(hash_of(&serde_json::to_string(case).unwrap_or_default()));
    }
}

pub fn exec(case: &Case, log: &mut CaseLog) {
    if case.points.pts.iter().any(|p| p.len() != case.dim) {
        return;
    }
    match case.dim {
        2 => run::<2>(case, log),
        3 => run::<3>(case, log),
        4 => run::<4>(case, log),
        5 => run::<5>(case, log),
        _ => {}
    }
}

pub fn strategy(dim: usize) -> BoxedStrategy<Case> {
    let nmax = match dim {
        2 => 14,
        3 => 10,
        4 => 8,
        _ => 7,
    };
    (any::<u64>(), 0u8..3, point_set_from(dim, dim + 1, nmax, EXACT_FAMILIES), prop_oneof![3 => Just(false), 1 => Just(true)])
        .prop_map(move |(salt, guarantee, points, pairs)| Case { dim, salt, guarantee, points, only: vec![], pairs, history: None })
        .boxed()
}

pub const HISTORY_MIX: crate::gen::history::OpMix = crate::gen::history::OpMix { insert: 3, remove: 8, flips: 2, repair: 1, setters: 0, clone: 0, adversarial_uuid: false };

pub fn history_strategy(dim: usize) -> BoxedStrategy<Case> {
    let nmax = match dim {
        2 => 12,
        3 => 10,
        4 => 9,
        _ => 8,
    };
    (any::<u64>(), crate::gen::history::start_strategy(dim, nmax, 0), proptest::collection::vec(crate::gen::history::op_strategy(dim, HISTORY_MIX), 1..=8))
        .prop_map(move |(salt, start, ops)| Case { dim, salt, guarantee: start.guarantee, points: PointSet { dim, family: "history".into(), pts: vec![] }, only: vec![], pairs: false, history: Some((start, ops)) })
        .boxed()
}

pub fn run_shard(ctx: &mut Ctx) {
    for dim in 2..=5usize {
        let total = match (ctx.tier, dim) {
            (Tier::Quick, 2) => 120,
            (Tier::Quick, 3) => 100,
            (Tier::Quick, 4) => 50,
            (Tier::Quick, _) => 30,
            (Tier::Thorough, 2) => 2400,
            (Tier::Thorough, 3) => 2000,
            (Tier::Thorough, 4) => 1000,
            (Tier::Thorough, _) => 600,
        };
        let n = ctx.share(total);
        ctx.run_cases(&format!("fault_enumeration_d{dim}"), n, strategy(dim), &|c, l| exec(c, l));
        let nh = ctx.share(total / 2);
        ctx.run_cases(&format!("fault_enumeration_after_history_d{dim}"), nh, history_strategy(dim), &|c, l| exec(c, l));
    }
}

pub fn replay(_label: &str, case: &Value, ctx: &mut Ctx) -> Option<Violation> {
    let c: Case = serde_json::from_value(case.clone()).ok()?;
    ctx.run_one("replay", &c, &|c, l| exec(c, l))
}

pub fn meta() -> super::Meta {
    super::Meta {
        id: ID,
        level: "fault_enumeration",
        rule: "case = a library-built triangulation (D 2-5, exact point families, every topology guarantee, <= 60 cells) that the independent reference accepts; on copies of its Tds every instance (strided to ~12 cells / 12 vertices) of 27 single-fault classes is injected through the feature-gated raw mutators: dangling / one-way / both-cleared / wrong-slot / boundary neighbour, dropped neighbour buffer, isolated cell component, duplicate cell, raw-removed cell, repeated vertex, vertex slot replaced by another live / a dead key, vertex slots swapped with and without their neighbour slots, vertex moved onto / across the opposite facet's hyperplane, two non-adjacent vertices identified, isolated vertex, NaN/inf coordinate, nil vertex / cell UUID, removed UUID-map entries, dead / wrong / absent / alternative incident cell; on instances with <= 12 cells also up to 300 pairs of faults; each corrupted copy is judged by the reference per level (lowest broken level must be rejected by the validator that owns it and by every cumulative validator; intact levels must be accepted; Triangulation::validate and dt.validate must equal the conjunction of their levels; validation_report().is_ok() must equal validate().is_ok()); evaluations = corrupted copies judged; non-trivial = instance with at least one applicable fault; distinct by the whole case",
        assumptions: &[
            "Euler rule as documented by the library's classification: chi = 1 with boundary, 1 + (-1)^D without",
            "a validator that panics on a corrupted copy is reported here as validator_panicked",
            "levels above the lowest broken one are not judged (validators assume the lower levels)",
        ],
        exhaustive: false,
        max_shards: 8,
    }
}
