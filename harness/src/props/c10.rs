//! C10 — point location returns a cell that really contains the query point.

use crate::dispatch_kd;
use crate::driver::ctx::{hash_of, CaseLog, Ctx, Tier, Violation};
use crate::exact::band::{analyze, orientation_matrix, Decision};
use crate::exact::geom::{HullSide, ScaledPoints};
use crate::gen::points::{point_set_from, uuid_for, PointSet};
use crate::gen::world::{guarantee_of, mk_point, mk_vertex, Dt, Kern};
use crate::oracle::certify::{certify, CertOpts};
use crate::oracle::levels::Opts;
use crate::oracle::snap::{ckey_from_u64, ckey_u64, vkey_u64, Snap};
use delaunay::core::algorithms::locate::{locate, locate_with_stats, LocateResult};
use delaunay::core::triangulation::TopologyGuarantee;
use proptest::prelude::*;
use serde::{Deserialize, Serialize};
use serde_json::Value;

pub const ID: &str = "C10";

#[derive(Debug, Clone, Serialize, Deserialize)]
pub struct Case {
    pub dim: usize,
    pub robust: bool,
    pub salt: u64,
    pub points: PointSet,
    /// extra query points (quarter-integer coordinates)
    pub extra: Vec<Vec<i16>>,
    /// how many live cells to try as hints (all if the triangulation is small)
    pub hint_budget: u8,
}

fn orient_decidable(pts: &[Vec<f64>], sp: &ScaledPoints, idx: &[usize]) -> bool {
    // cheap accept: integer-ish determinants far above the band
    let d = sp.orient_det(idx);
    let approx = crate::exact::bigint::ldexp(d.to_f64_exp().0, d.to_f64_exp().1 + (sp.exp as i64) * (sp.dim as i64)).abs();
    let maxc = idx.iter().flat_map(|&i| pts[i].iter()).fold(0.0f64, |m, x| m.max(x.abs()));
    if approx > 1e-6 * (1.0 + maxc).powi(sp.dim as i32) && maxc < 1e6 {
        return true;
    }
    let m = orientation_matrix(&idx.iter().map(|&i| pts[i].clone()).collect::<Vec<_>>());
    !matches!(analyze(&m, 1e-15).decision, Decision::InBand)
}

fn run<K: Kern<D>, const D: usize>(case: &Case, log: &mut CaseLog) {
    log.class(format!("D{D}"));
    log.class(format!("kernel:{}", K::NAME));
    let k = K::make();
    let verts: Vec<_> = case.points.pts.iter().enumerate().map(|(i, p)| mk_vertex::<i32, D>(p, uuid_for(case.salt, i), Some(i as i64))).collect();
    let Ok(dt) = Dt::<K, i32, D>::with_topology_guarantee(&k, &verts, TopologyGuarantee::PLManifold) else {
        log.class("construction_err");
        return;
    };
    let s = Snap::of(dt.tds());
    // only certified triangulations (embedded, convex): the property's precondition "valid triangulation"
    let cert = certify(&s, &CertOpts { levels: Opts::ball(guarantee_of(dt.topology_guarantee()), true), delaunay: false, convex: true, coverage: false, reference: false });
    if !cert.problems().is_empty() || cert.convex_in_band > 0 || cert.levels.orient_in_band > 0 || s.cells.is_empty() {
        log.class("not_certified(skipped)");
        return;
    }
    let cells = s.cell_indices().unwrap();
    let n = s.verts.len();
    let pts = s.points();
    // ---- queries ----
    let mut queries: Vec<(Vec<f64>, &'static str)> = Vec::new();
    for v in &pts {
        queries.push((v.clone(), "vertex"));
    }
    for c in cells.iter().take(40) {
        let mut bar = vec![0.0; D];
        for &i in c {
            for j in 0..D {
                bar[j] += pts[i][j] / (D as f64 + 1.0);
            }
        }
        queries.push((bar, "cell_barycentre"));
        // facet centroid and edge midpoint of this cell
        let mut fc = vec![0.0; D];
        for &i in &c[1..] {
            for j in 0..D {
                fc[j] += pts[i][j] / D as f64;
            }
        }
        queries.push((fc, "facet_centroid"));
        queries.push(((0..D).map(|j| 0.5 * (pts[c[0]][j] + pts[c[1]][j])).collect(), "edge_midpoint"));
    }
    for (f, opp) in crate::oracle::delaunay::boundary_facets(&cells).iter().take(30) {
        let mut cen = vec![0.0; D];
        for &i in f {
            for j in 0..D {
                cen[j] += pts[i][j] / D as f64;
            }
        }
        queries.push((cen.clone(), "hull_facet_centroid"));
        queries.push(((0..D).map(|j| 0.5 * (pts[f[0]][j] + pts[f[D - 1]][j])).collect(), "hull_edge_midpoint"));
        queries.push(((0..D).map(|j| cen[j] + (cen[j] - pts[*opp][j]) * 0.25).collect(), "beyond_hull_facet"));
        queries.push(((0..D).map(|j| 3.0 * cen[j] - 2.0 * pts[f[0]][j]).collect(), "on_hull_plane_outside_facet"));
    }
    // grid of the bounding box +-1 (strided to at most ~250 points)
    let lo: Vec<f64> = (0..D).map(|j| pts.iter().map(|p| p[j]).fold(f64::INFINITY, f64::min).floor() - 1.0).collect();
    let hi: Vec<f64> = (0..D).map(|j| pts.iter().map(|p| p[j]).fold(f64::NEG_INFINITY, f64::max).ceil() + 1.0).collect();
    let dims: Vec<usize> = (0..D).map(|j| ((hi[j] - lo[j]) as usize + 1).min(12)).collect();
    let total: usize = dims.iter().product();
    let stride = (total / 250).max(1);
    let mut g = (case.salt as usize) % stride;
    while g < total {
        let mut t = g;
        let mut q = vec![0.0; D];
        for j in 0..D {
            q[j] = lo[j] + (t % dims[j]) as f64;
            t /= dims[j];
        }
        queries.push((q, "grid_point"));
        g += stride;
    }
    for e in &case.extra {
        queries.push(((0..D).map(|j| *e.get(j).unwrap_or(&0) as f64 / 4.0).collect(), "generated"));
    }
    // ---- hints ----
    let live: Vec<u64> = s.cells.iter().map(|c| c.key).collect();
    let budget = (case.hint_budget as usize).max(2);
    let step = (live.len() / budget).max(1);
    let mut hints: Vec<(Option<u64>, &'static str, bool)> = vec![(None, "none", false)];
    for (i, ck) in live.iter().enumerate() {
        if i % step == 0 || live.len() <= 16 {
            hints.push((Some(*ck), "live", true));
        }
    }
    // a key that looks like a removed cell (same slot, later version), forged keys, and a key
    // taken from a different triangulation (only if it is not numerically a live key here)
    let stale = live[0] + (2u64 << 32);
    for (fk, name) in [(stale, "stale"), (0x0000_0001_0000_7FFF, "forged"), (0, "null"), (u64::MAX, "max")] {
        if !live.contains(&fk) {
            hints.push((Some(fk), name, false));
        }
    }
    {
        let other_pts: Vec<Vec<f64>> = (0..=D).map(|i| (0..D).map(|j| if i == j + 1 { 1.0 } else { 0.0 }).collect()).collect();
        let ov: Vec<_> = other_pts.iter().enumerate().map(|(i, p)| mk_vertex::<i32, D>(p, uuid_for(case.salt ^ 1, i), None)).collect();
        if let Ok(o) = Dt::<K, i32, D>::with_kernel(&k, &ov) {
            if let Some((ck, _)) = o.cells().next() {
                let fk = ckey_u64(ck);
                hints.push((Some(fk), "foreign", live.contains(&fk)));
            }
        }
    }
    // ---- evaluate ----
    let all: Vec<usize> = (0..n).collect();
    let mut nontrivial = false;
    for (q, qkind) in &queries {
        if q.iter().any(|x| !x.is_finite()) {
            continue;
        }
        let mut ext = pts.clone();
        ext.push(q.clone());
        let sp = ScaledPoints::new(&ext);
        let qi = n;
        // decidability of q against every facet hyperplane of every cell
        let mut decidable = true;
        'cells: for c in &cells {
            for skip in 0..=D {
                let mut idx: Vec<usize> = c.clone();
                idx[skip] = qi;
                if !orient_decidable(&ext, &sp, &idx) {
                    decidable = false;
                    break 'cells;
                }
            }
        }
        if !decidable {
            log.class("query_in_band(skipped)");
            continue;
        }
        let side = crate::exact::geom::hull_side(&sp, &all, qi);
        let strictly_outside = side == HullSide::StrictlyOutside;
        let lp = mk_point::<D>(q);
        let mut classes: Vec<(bool, &'static str)> = Vec::new(); // (is_outside_answer, hint name)
        for (hint, hname, hint_is_live) in &hints {
            let h = hint.map(ckey_from_u64);
            log.evals += 1;
            let r = locate(dt.tds(), &k, &lp, h);
            let rs = locate_with_stats(dt.tds(), &k, &lp, h);
            let desc = format!("query {:?} ({qkind}), hint {hname} {:x?}", q, hint);
            let mk = |kind: &str, msg: String| {
                Violation::new(ID, kind, "locate", format!("{desc}: {msg}")).fact("dim", D as u64).fact("kernel", K::NAME).fact("query_kind", *qkind).fact("hint", *hname).fact("hull_side", format!("{:?}", side))
            };
            match (&r, &rs) {
                (Ok(a), Ok((b, st))) => {
                    if a != b {
                        log.violate(mk("stats_variant_differs", format!("locate -> {:?} but locate_with_stats -> {:?}", a, b)));
                    }
                    if st.used_hint != *hint_is_live {
                        log.violate(mk("used_hint_wrong", format!("used_hint={} but the hint is {}", st.used_hint, if *hint_is_live { "a live cell" } else { "absent or not a live cell" })));
                    }
                    if st.walk_steps >= 3 || st.fallback.is_some() {
                        nontrivial = true;
                    }
                    if st.fallback.is_some() {
                        log.class("scan_fallback");
                    }
                }
                (Err(e), _) | (_, Err(e)) => {
                    log.violate(mk("locate_error", format!("locate returned Err({e}) on a valid triangulation with cells")));
                    continue;
                }
            }
            let Ok(a) = r else { continue };
            match a {
                LocateResult::Outside => {
                    classes.push((true, hname));
                    if !strictly_outside {
                        log.violate(mk("outside_but_in_closed_hull", format!("answered Outside but the point is {:?} the convex hull", side)));
                    }
                }
                LocateResult::InsideCell(ck) => {
                    classes.push((false, hname));
                    if strictly_outside {
                        log.violate(mk("inside_but_strictly_outside", format!("answered InsideCell({:#x}) but the point is strictly outside the convex hull", ckey_u64(ck))));
                    } else {
                        match s.cells.iter().position(|c| c.key == ckey_u64(ck)) {
                            None => log.violate(mk("cell_not_live", format!("answered InsideCell({:#x}) which is not a live cell", ckey_u64(ck)))),
                            Some(ci) => {
                                if sp.in_closed_simplex(&cells[ci], qi) != Some(true) {
                                    log.violate(mk("cell_does_not_contain_point", format!("answered InsideCell({:#x}) = {:?} whose closed simplex does not contain the point (barycentric signs {:?})", ckey_u64(ck), cells[ci].iter().map(|&i| &pts[i]).collect::<Vec<_>>(), sp.barycentric_signs(&cells[ci], qi))));
                                } else if sp.barycentric_signs(&cells[ci], qi).map_or(false, |b| b.iter().any(|&x| x == 0)) {
                                    nontrivial = true;
                                }
                            }
                        }
                    }
                }
                LocateResult::OnFacet(ck, fi) => {
                    classes.push((false, hname));
                    let ok = s.cells.iter().position(|c| c.key == ckey_u64(ck)).map_or(false, |ci| {
                        sp.barycentric_signs(&cells[ci], qi).map_or(false, |b| b.iter().all(|&x| x >= 0) && b.get(fi as usize) == Some(&0))
                    });
                    if !ok {
                        log.violate(mk("on_facet_wrong", format!("answered OnFacet({:#x},{fi}) but the point is not on that facet", ckey_u64(ck))));
                    }
                }
                LocateResult::OnEdge(ck) => {
                    classes.push((false, hname));
                    let ok = s.cells.iter().position(|c| c.key == ckey_u64(ck)).map_or(false, |ci| sp.barycentric_signs(&cells[ci], qi).map_or(false, |b| b.iter().all(|&x| x >= 0) && b.iter().filter(|&&x| x == 0).count() >= D.saturating_sub(1)));
                    if !ok {
                        log.violate(mk("on_edge_wrong", "answered OnEdge but the point is not on an edge of that cell".into()));
                    }
                }
                LocateResult::OnVertex(vk) => {
                    classes.push((false, hname));
                    let ok = s.verts.iter().any(|v| v.key == vkey_u64(vk) && v.coords == *q);
                    if !ok {
                        log.violate(mk("on_vertex_wrong", "answered OnVertex but the point is not that vertex".into()));
                    }
                }
            }
            if !log.violations.is_empty() {
                return;
            }
        }
        if let (Some(a), Some(b)) = (classes.iter().find(|c| c.0), classes.iter().find(|c| !c.0)) {
            log.violate(
                Violation::new(ID, "answer_class_depends_on_hint", "locate", format!("query {:?} ({qkind}): hint {} gives Outside, hint {} gives a containing cell", q, a.1, b.1))
                    .fact("dim", D as u64)
                    .fact("query_kind", *qkind),
            );
            return;
        }
    }
    log.class(format!("cells:{}", if cells.len() >= 2 * D + 2 { ">=2D+2" } else { "<2D+2" }));
    if cells.len() >= 2 * D + 2 && nontrivial {
        log.nontrivial_hash(hash_of(&serde_json::to_string(case).unwrap_or_default()));
    }
}

pub fn exec(case: &Case, log: &mut CaseLog) {
    if !(2..=5).contains(&case.dim) || case.points.pts.iter().any(|p| p.len() != case.dim) {
        return;
    }
    dispatch_kd!(case.dim, case.robust, run, case, log)
}

const FAMS: &[u8] = &[1, 1, 0, 2, 3];

pub fn strategy(dim: usize, thorough: bool) -> BoxedStrategy<Case> {
    let nmax = match dim {
        2 => 16,
        3 => 12,
        4 => 9,
        _ => 8,
    } + if thorough { 4 } else { 0 };
    (any::<bool>(), any::<u64>(), point_set_from(dim, dim + 1, nmax, FAMS), proptest::collection::vec(proptest::collection::vec(-40i16..=40, dim), 0..8), 2u8..12)
        .prop_map(move |(robust, salt, points, extra, hint_budget)| Case { dim, robust, salt, points, extra, hint_budget })
        .boxed()
}


// ------------------------------------------------------------------------------------------------
// Large instances: hundreds of cells, far hints, long walks.  The triangulation is not certified by
// the (expensive) independent oracle; the check only uses facts that hold for any triangulation
// the library itself validates: a query built as a strictly interior dyadic combination of one
// cell's vertices lies in that cell, so the answer can never be `Outside`, and whatever cell is
// returned must contain the query exactly.

#[derive(Debug, Clone, Serialize, Deserialize)]
pub struct LargeCase {
    pub dim: usize,
    pub robust: bool,
    pub salt: u64,
    /// integer coordinates (scaled by 1/16)
    pub raw: Vec<Vec<i32>>,
    /// (cell selector, dyadic weights) of the queries
    pub queries: Vec<(u16, Vec<u8>)>,
    /// hint selectors (live cells); None, a stale and a forged key are always tried as well
    pub hints: Vec<u16>,
}

fn run_large<K: Kern<D>, const D: usize>(case: &LargeCase, log: &mut CaseLog) {
    log.class(format!("large:D{D}"));
    let k = K::make();
    let mut seen = std::collections::BTreeSet::new();
    let pts: Vec<Vec<f64>> = case.raw.iter().filter(|r| seen.insert((*r).clone())).map(|r| r.iter().map(|&v| v as f64 / 16.0).collect()).collect();
    let verts: Vec<_> = pts.iter().enumerate().map(|(i, p)| mk_vertex::<i32, D>(p, uuid_for(case.salt, i), Some(i as i64))).collect();
    let Ok(dt) = Dt::<K, i32, D>::with_topology_guarantee(&k, &verts, TopologyGuarantee::PLManifold) else {
        log.class("large:construction_err");
        return;
    };
    if dt.as_triangulation().validate().is_err() {
        log.class("large:not_valid(skipped)");
        return;
    }
    let s = Snap::of(dt.tds());
    let Some(cells) = s.cell_indices() else { return };
    if cells.len() < 64 {
        log.class("large:too_small(skipped)");
        return;
    }
    log.class(if cells.len() > 256 { "large:more_than_256_cells" } else { "large:64_to_256_cells" });
    let spts = s.points();
    let mut hints: Vec<Option<u64>> = vec![None];
    for h in &case.hints {
        hints.push(Some(s.cells[crate::gen::world::pick(*h, s.cells.len())].key));
    }
    hints.push(Some(s.cells[0].key + (2u64 << 32))); // stale: same slot, later version
    hints.push(Some(0x0000_0001_0000_7FFF));
    for (csel, w) in &case.queries {
        let ci = crate::gen::world::pick(*csel, cells.len());
        let c = &cells[ci];
        // strictly positive dyadic weights summing to 64
        let mut wts: Vec<u32> = (0..=D).map(|i| 1 + (*w.get(i).unwrap_or(&1) as u32 % 13)).collect();
        let tot: u32 = wts.iter().sum();
        // scale to a power-of-two denominator: use weights/ tot only if tot is a power of two; otherwise pad the first
        let target = tot.next_power_of_two();
        wts[0] += target - tot;
        let q: Vec<f64> = (0..D).map(|j| c.iter().zip(&wts).map(|(&vi, &wt)| spts[vi][j] * wt as f64).sum::<f64>() / target as f64).collect();
        let mut all = spts.clone();
        all.push(q.clone());
        let sp = ScaledPoints::new(&all);
        let qi = all.len() - 1;
        // the construction must really be strictly inside (exactness of the dyadic combination)
        match sp.barycentric_signs(c, qi) {
            Some(sg) if sg.iter().all(|&x| x > 0) => {}
            _ => continue,
        }
        let point = mk_point::<D>(&q);
        for h in &hints {
            log.evals += 1;
            let hint = h.map(ckey_from_u64);
            let r = locate(dt.tds(), &k, &point, hint);
            let rs = locate_with_stats(dt.tds(), &k, &point, hint);
            let describe = |r: &Result<LocateResult, _>| -> String {
                match r {
                    Ok(LocateResult::InsideCell(ck)) => {
                        let key = ckey_u64(*ck);
                        match s.cells.iter().position(|x| x.key == key) {
                            Some(pos) => match sp.barycentric_signs(&cells[pos], qi) {
                                Some(sg) if sg.iter().all(|&x| x >= 0) => "ok".into(),
                                _ => format!("InsideCell({key:#x}) which does not contain the query"),
                            },
                            None => format!("InsideCell({key:#x}) which is not a live cell"),
                        }
                    }
                    Ok(other) => format!("{other:?} for a point strictly inside cell {:#x}", s.cells[ci].key),
                    Err(_) => "Err".into(), // an error is not a wrong answer
                }
            };
            let stats_r = rs.as_ref().map(|(r, _)| r.clone()).map_err(|_| ());
            for (api, d) in [("locate", describe(&r.map_err(|_| ()))), ("locate_with_stats", describe(&stats_r))] {
                if d != "ok" && d != "Err" {
                    log.violate(
                        Violation::new(ID, "wrong_location_large", api, format!("{} cells, query {:?} (strictly inside cell {:#x}), hint {:?}: {api} returned {d}", cells.len(), q, s.cells[ci].key, h.map(|x| format!("{x:#x}"))))
                            .fact("dim", D as u64)
                            .fact("kernel", K::NAME),
                    );
                    return;
                }
            }
        }
    }
    log.nontrivial_hash(hash_of(&serde_json::to_string(case).unwrap_or_default()));
}

pub fn exec_large(case: &LargeCase, log: &mut CaseLog) {
    if !(2..=4).contains(&case.dim) || case.raw.iter().any(|p| p.len() != case.dim) {
        return;
    }
    dispatch_kd!(case.dim, case.robust, run_large, case, log)
}

pub fn large_strategy(dim: usize) -> BoxedStrategy<LargeCase> {
    let (nmin, nmax) = match dim {
        2 => (90usize, 260usize),
        3 => (35, 90),
        _ => (18, 34),
    };
    (any::<bool>(), any::<u64>(), proptest::collection::vec(proptest::collection::vec(-2000i32..=2000, dim), nmin..=nmax), proptest::collection::vec((any::<u16>(), proptest::collection::vec(any::<u8>(), dim + 1)), 4..=10), proptest::collection::vec(any::<u16>(), 8..=24))
        .prop_map(move |(robust, salt, raw, queries, hints)| LargeCase { dim, robust, salt, raw, queries, hints })
        .boxed()
}

pub fn run_shard(ctx: &mut Ctx) {
    let thorough = ctx.tier == Tier::Thorough;
    for dim in 2..=5usize {
        let total = match (ctx.tier, dim) {
            (Tier::Quick, 2) => 500,
            (Tier::Quick, 3) => 300,
            (Tier::Quick, 4) => 120,
            (Tier::Quick, _) => 60,
            (Tier::Thorough, 2) => 10_000,
            (Tier::Thorough, 3) => 6_000,
            (Tier::Thorough, 4) => 2_400,
            (Tier::Thorough, _) => 1_200,
        };
        let n = ctx.share(total);
        ctx.run_cases(&format!("locate_d{dim}"), n, strategy(dim, thorough), &|c, l| exec(c, l));
    }
    for dim in 2..=4usize {
        let total = match (ctx.tier, dim) {
            (Tier::Quick, 2) => 160,
            (Tier::Quick, 3) => 96,
            (Tier::Quick, _) => 48,
            (Tier::Thorough, 2) => 1_600,
            (Tier::Thorough, 3) => 1_000,
            (Tier::Thorough, _) => 500,
        };
        let n = ctx.share(total);
        ctx.run_cases(&format!("large_locate_d{dim}"), n, large_strategy(dim), &|c, l| exec_large(c, l));
    }
}

pub fn replay(label: &str, case: &Value, ctx: &mut Ctx) -> Option<Violation> {
    if label.starts_with("large_locate") {
        let c: LargeCase = serde_json::from_value(case.clone()).ok()?;
        return ctx.run_one("replay", &c, &|c, l| exec_large(c, l));
    }
    let c: Case = serde_json::from_value(case.clone()).ok()?;
    ctx.run_one("replay", &c, &|c, l| exec(c, l))
}

pub fn meta() -> super::Meta {
    super::Meta {
        id: ID,
        level: "exploration",
        rule: "case = a batch-constructed triangulation (grid / general / cospherical / flat families, D 2-5, both kernels) that passes the independent certification (L1-L3, positive orientation, convex boundary); per case the queries are every vertex, cell barycentre, facet centroid, edge midpoint, hull-facet centroid, hull-edge midpoint, a point beyond and a point on the hyperplane of each hull facet, the integer grid of the bounding box +-1 (strided to ~250) and generated quarter-integer points, each under the hints none / live cells (all when <= 16) / stale / forged / null / foreign; only queries whose side of every facet hyperplane of every cell is decidable are judged; (large instances) triangulations of 90-260 points in 2D, 35-90 in 3D, 18-34 in 4D (64 to ~500 cells, the library's own validate() must accept them) are queried with strictly interior dyadic combinations of a cell's vertices under the hints none / 8-24 live cells anywhere in the triangulation / stale / forged: the answer must be InsideCell of a cell that contains the query exactly, never Outside; an evaluation is one (query, hint) pair through locate and locate_with_stats; non-trivial = triangulation with >= 2D+2 cells and a query on a cell boundary, a walk of >= 3 steps or a scan fallback; distinct by the whole case",
        assumptions: &[
            "a hint counts as live iff its numeric key is a live cell key of the queried triangulation (a foreign key can coincide)",
            "stale keys are modelled as the same slot with a later version",
        ],
        exhaustive: false,
        max_shards: 8,
    }
}
