//! C04 — a passing Delaunay check means the empty-circumsphere property really holds.

use crate::dispatch_kd;
use crate::driver::ctx::{hash_of, CaseLog, Ctx, Tier, Violation};
use crate::exact::geom::{binom, general_position, ScaledPoints};
use crate::gen::history::{op_strategy, start_strategy, start_world, Op, OpMix, Outcome, Start, World};
use crate::gen::world::{guarantee_of, Kern};
use crate::oracle::certify::{certify, CertOpts};
use crate::oracle::delaunay::pair_decidable;
use crate::oracle::levels::Opts;
use crate::oracle::snap::Snap;
use delaunay::core::algorithms::flips::verify_delaunay_via_flip_predicates;
use delaunay::core::util::delaunay_validation::find_delaunay_violations;
use proptest::prelude::*;
use serde::{Deserialize, Serialize};
use serde_json::Value;

pub const ID: &str = "C04";

#[derive(Debug, Clone, Serialize, Deserialize)]
pub struct Case {
    pub dim: usize,
    pub robust: bool,
    pub salt: u64,
    pub start: Start,
    pub ops: Vec<Op>,
}

fn verdicts<K: Kern<D>, const D: usize>(w: &World<K, D>) -> Vec<(&'static str, bool)> {
    let k = K::make();
    vec![
        ("is_valid", w.dt.is_valid().is_ok()),
        ("validate", w.dt.validate().is_ok()),
        ("validation_report", w.dt.validation_report().is_ok()),
        ("is_delaunay_via_flips", w.dt.is_delaunay_via_flips().is_ok()),
        ("verify_delaunay_via_flip_predicates", verify_delaunay_via_flip_predicates(w.dt.tds(), &k).is_ok()),
        ("find_delaunay_violations", matches!(find_delaunay_violations(w.dt.tds(), None), Ok(v) if v.is_empty())),
    ]
}

fn judge<K: Kern<D>, const D: usize>(w: &World<K, D>, s: &Snap, ctx: &str, counts: &mut (u64, u64), log: &mut CaseLog) {
    if s.cells.is_empty() || !s.all_finite() {
        return;
    }
    // structurally valid in the sense of independent L1-L3 incl. positive orientation (embedding)
    let g = guarantee_of(w.dt.topology_guarantee());
    let cert = certify(s, &CertOpts { levels: Opts::euclid(g, true), delaunay: true, convex: true, coverage: false, reference: false });
    if !cert.levels.ok_upto(3) || cert.levels.orient_in_band > 0 {
        log.class("state_not_valid(skipped)");
        return;
    }
    let dr = cert.delaunay.as_ref().unwrap();
    let convex = cert.convex_decidable.is_empty() && cert.convex_in_band == 0;
    let v = verdicts(w);
    log.evals += v.len() as u64;
    if dr.has_decidable() {
        counts.0 += 1;
        log.class(format!("non_delaunay_state:{}", cert.violation_class));
        for (name, accepted) in &v {
            if *accepted {
                log.violate(
                    Violation::new(ID, "accepts_non_delaunay", name, format!("{ctx}: {name} accepts a valid triangulation with {} decidable strict circumsphere violations (class {})", dr.decidable().len(), cert.violation_class))
                        .fact("dim", D as u64)
                        .fact("kernel", K::NAME)
                        .fact("cause", cert.violation_class)
                        .fact("convex", convex),
                );
            }
        }
    } else if dr.violations.is_empty() && convex {
        // completeness: general position with every in-sphere determinant decidable
        let pts = s.points();
        let n = pts.len();
        if n <= 12 && binom(n, D + 2) <= 2000 {
            let sp = ScaledPoints::new(&pts);
            if general_position(&sp) {
                let cells = s.cell_indices().unwrap();
                let all_decidable = cells.iter().all(|c| (0..n).all(|q| c.contains(&q) || pair_decidable(&pts, c, q)));
                if all_decidable {
                    counts.1 += 1;
                    log.class("delaunay_state_general_position");
                    for (name, accepted) in &v {
                        if !*accepted {
                            let detail = match *name {
                                "is_valid" => w.dt.is_valid().err().map(|e| e.to_string()),
                                "validate" => w.dt.validate().err().map(|e| e.to_string()),
                                _ => None,
                            };
                            log.violate(
                                Violation::new(ID, "rejects_delaunay", name, format!("{ctx}: {name} rejects a genuinely Delaunay triangulation in general position ({} vertices, {} cells): {:?}", n, cells.len(), detail))
                                    .fact("dim", D as u64)
                                    .fact("kernel", K::NAME),
                            );
                        }
                    }
                }
            }
        }
    } else {
        log.class("only_in_band_violations_or_nonconvex");
    }
}

fn run<K: Kern<D>, const D: usize>(case: &Case, log: &mut CaseLog) {
    log.class(format!("D{D}"));
    log.class(format!("kernel:{}", K::NAME));
    let Some(mut w) = start_world::<K, D>(&case.start, case.salt) else {
        log.class("start:construction_err");
        return;
    };
    let mut counts = (0u64, 0u64);
    let mut before = w.snap();
    judge(&w, &before, "constructed start state", &mut counts, log);
    for (step, op) in case.ops.iter().enumerate() {
        if !log.violations.is_empty() {
            break;
        }
        let (res, out) = w.apply(&before, op);
        if matches!(out, Outcome::SetPanicked { .. }) {
            break;
        }
        let after = w.snap();
        if !out.is_failure() && !matches!(out, Outcome::Set | Outcome::Noop) {
            judge(&w, &after, &format!("after step {step} ({}) -> {}", res.desc, out.label()), &mut counts, log);
        }
        before = after;
    }
    if counts.0 > 0 || (counts.1 > 0 && before.verts.len() >= 2 * D + 2) {
        log.nontrivial_hash(hash_of(&serde_json::to_string(case).unwrap_or_default()));
    }
}

pub fn exec(case: &Case, log: &mut CaseLog) {
    if !(2..=5).contains(&case.dim) || case.start.points.iter().any(|p| p.len() != case.dim) {
        return;
    }
    dispatch_kd!(case.dim, case.robust, run, case, log)
}

pub const MIX: OpMix = OpMix { insert: 3, remove: 2, flips: 10, repair: 0, setters: 0, clone: 0, adversarial_uuid: false };

pub fn strategy(dim: usize, max_ops: usize) -> BoxedStrategy<Case> {
    let nmax = match dim {
        2 => 12,
        3 => 10,
        4 => 8,
        _ => 8,
    };
    (any::<bool>(), any::<u64>(), start_strategy(dim, nmax, 0), proptest::collection::vec(op_strategy(dim, MIX), 0..=max_ops), any::<bool>())
        .prop_map(move |(robust, salt, mut start, ops, repair_off)| {
            // deliberately non-Delaunay states: insertions/removals with automatic repair off
            if repair_off {
                start.repair = Some(0);
            }
            Case { dim, robust, salt, start, ops }
        })
        .boxed()
}

pub fn run_shard(ctx: &mut Ctx) {
    let thorough = ctx.tier == Tier::Thorough;
    let max_ops = if thorough { 12 } else { 6 };
    for dim in 2..=5usize {
        let total = match (ctx.tier, dim) {
            (Tier::Quick, 2) => 4000,
            (Tier::Quick, 3) => 3000,
            (Tier::Quick, 4) => 1600,
            (Tier::Quick, _) => 1000,
            (Tier::Thorough, 2) => 40_000,
            (Tier::Thorough, 3) => 30_000,
            (Tier::Thorough, 4) => 15_000,
            (Tier::Thorough, _) => 10_000,
        };
        let n = ctx.share(total);
        ctx.run_cases(&format!("validator_history_d{dim}"), n, strategy(dim, max_ops), &|c, l| exec(c, l));
    }
}

pub fn replay(_label: &str, case: &Value, ctx: &mut Ctx) -> Option<Violation> {
    let c: Case = serde_json::from_value(case.clone()).ok()?;
    ctx.run_one("replay", &c, &|c, l| exec(c, l))
}

pub fn meta() -> super::Meta {
    super::Meta {
        id: ID,
        level: "exploration",
        rule: "differential against the exact oracle: batch-constructed start states (Delaunay) followed by up to 6 (quick) / 12 (thorough) generated legal flips of every kind, insertions and removals with automatic repair switched off in half of the cases (deliberately non-Delaunay states); after every successful step, on states whose independent L1-L3 (incl. positive orientation) hold, the six verdicts is_valid / validate / validation_report / is_delaunay_via_flips / verify_delaunay_via_flip_predicates / find_delaunay_violations are compared with the exact list of strict circumsphere violations: soundness on states with >= 1 decidable violation, completeness on general-position states whose every in-sphere determinant is decidable; evaluations = verdicts judged; non-trivial = case reaching a state with a decidable violation, or a judged Delaunay state with >= 2D+2 vertices; distinct by the whole case",
        assumptions: &[
            "agreement of the six verdicts with each other is recorded in classes, not required",
            "states with only in-band violations, or non-convex without decidable violation, are not judged",
        ],
        exhaustive: false,
        max_shards: 8,
    }
}
