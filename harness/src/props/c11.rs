//! C11 — the convex hull view is the true hull and never serves stale data.

use crate::dispatch_kd;
use crate::driver::ctx::{hash_of, CaseLog, Ctx, Tier, Violation};
use crate::exact::band::{analyze, orientation_matrix, Decision};
use crate::exact::geom::{HullSide, ScaledPoints};
use crate::gen::history::{op_strategy, start_strategy, start_world, Op, OpMix, Outcome, Start, World};
use crate::gen::world::{guarantee_of, mk_point, Kern};
use crate::oracle::certify::{certify, CertOpts};
use crate::oracle::levels::Opts;
use crate::oracle::snap::{ckey_u64, Snap};
use delaunay::geometry::algorithms::convex_hull::{ConvexHull, ConvexHullConstructionError, ConvexHullValidationError};
use proptest::prelude::*;
use serde::{Deserialize, Serialize};
use serde_json::Value;
use std::collections::{BTreeMap, BTreeSet};

pub const ID: &str = "C11";

#[derive(Debug, Clone, Serialize, Deserialize)]
pub struct Case {
    pub dim: usize,
    pub robust: bool,
    pub salt: u64,
    pub start: Start,
    /// operations before the hull is created
    pub pre: Vec<Op>,
    /// operations between hull creation and the queries (queries run after each of them)
    pub post: Vec<Op>,
    pub queries: Vec<Vec<i16>>,
}

type Hull<K, const D: usize> = ConvexHull<K, i32, (), D>;

fn decidable_side(pts: &[Vec<f64>], idx: &[usize]) -> bool {
    let m = orientation_matrix(&idx.iter().map(|&i| pts[i].clone()).collect::<Vec<_>>());
    matches!(analyze(&m, 1e-15).decision, Decision::Sign(_))
}

/// Part (a): the hull of a certified triangulation is the true hull and its queries are exact.
fn static_checks<K: Kern<D>, const D: usize>(w: &World<K, D>, s: &Snap, hull: &Hull<K, D>, queries: &[Vec<f64>], log: &mut CaseLog) -> bool {
    let tri = w.dt.as_triangulation();
    let cells = s.cell_indices().unwrap();
    let pts = s.points();
    let n = pts.len();
    let bad = |kind: &str, site: &str, msg: String| Violation::new(ID, kind, site, msg).fact("dim", D as u64).fact("kernel", K::NAME);
    // hull facets == facets lying in exactly one cell
    let bf = crate::oracle::delaunay::boundary_facets(&cells);
    let vi = s.vindex();
    let mut want: BTreeSet<Vec<usize>> = BTreeSet::new();
    for (f, _) in &bf {
        want.insert(f.clone());
    }
    let mut got: BTreeSet<Vec<usize>> = BTreeSet::new();
    let mut hull_facets: Vec<(Vec<usize>, usize)> = Vec::new(); // (facet vertex indices, opposite vertex index) per hull facet index
    for fh in hull.facets() {
        let ck = ckey_u64(fh.cell_key());
        let Some(c) = s.cells.iter().find(|c| c.key == ck) else {
            log.violate(bad("hull_facet_dangling", "facets", format!("hull facet refers to missing cell {:#x}", ck)));
            return false;
        };
        let fi = fh.facet_index() as usize;
        if fi > D {
            log.violate(bad("hull_facet_index", "facets", format!("facet index {fi} out of range")));
            return false;
        }
        let mut f: Vec<usize> = c.verts.iter().enumerate().filter(|(j, _)| *j != fi).map(|(_, k)| vi[k]).collect();
        f.sort_unstable();
        hull_facets.push((f.clone(), vi[&c.verts[fi]]));
        got.insert(f);
    }
    log.evals += 1;
    if got != want || hull.number_of_facets() != want.len() {
        log.violate(bad("hull_facets_wrong", "from_triangulation", format!("hull has {} facets ({} distinct), facets incident to exactly one cell: {}", hull.number_of_facets(), got.len(), want.len())));
        return false;
    }
    // closed surface: every (D-2)-face of a hull facet in exactly two hull facets
    if D >= 2 {
        let mut ridge: BTreeMap<Vec<usize>, usize> = BTreeMap::new();
        for f in &got {
            for i in 0..f.len() {
                let r: Vec<usize> = f.iter().enumerate().filter(|(j, _)| *j != i).map(|(_, &k)| k).collect();
                *ridge.entry(r).or_default() += 1;
            }
        }
        if ridge.values().any(|&c| c != 2) {
            log.violate(bad("hull_not_closed", "from_triangulation", "a ridge of the hull is not shared by exactly two hull facets".into()));
            return false;
        }
    }
    if let Err(e) = hull.validate(tri) {
        log.violate(bad("hull_validate_rejects_fresh_hull", "validate", format!("validate() on a freshly created hull: {e}")));
        return false;
    }
    if !hull.is_valid_for_triangulation(tri) {
        log.violate(bad("fresh_hull_reported_stale", "is_valid_for_triangulation", "a freshly created hull is reported stale".into()));
        return false;
    }
    // every vertex on the inner side of (or on) every hull facet
    let spv = ScaledPoints::new(&pts);
    for (f, opp) in &hull_facets {
        let so = spv.side(f, *opp);
        for q in 0..n {
            if spv.side(f, q) * so < 0 {
                let mut idx = f.clone();
                idx.push(q);
                if decidable_side(&pts, &idx) {
                    log.violate(bad("vertex_outside_hull_facet", "from_triangulation", format!("vertex {:?} lies strictly outside hull facet {:?}", pts[q], f)));
                    return false;
                }
            }
        }
    }
    // queries
    let all: Vec<usize> = (0..n).collect();
    for q in queries {
        let mut ext = pts.clone();
        ext.push(q.clone());
        let sp = ScaledPoints::new(&ext);
        let side = crate::exact::geom::hull_side(&sp, &all, n);
        // exact per-facet visibility
        let mut strictly_visible: BTreeSet<usize> = BTreeSet::new();
        let mut undecided: BTreeSet<usize> = BTreeSet::new();
        for (i, (f, opp)) in hull_facets.iter().enumerate() {
            let so = sp.side(f, *opp);
            let sq = sp.side(f, n);
            let mut idx = f.clone();
            idx.push(n);
            let mut idx_in = f.clone();
            idx_in.push(*opp);
            // the predicate compares two orientations (facet + inside vertex, facet + query): both must be decidable
            if sq == 0 || so == 0 || !decidable_side(&ext, &idx) || !decidable_side(&ext, &idx_in) {
                undecided.insert(i);
            } else if sq * so < 0 {
                strictly_visible.insert(i);
            }
        }
        let lp = mk_point::<D>(q);
        log.evals += 1;
        let desc = format!("query {:?} ({:?})", q, side);
        // is_point_outside
        if undecided.is_empty() && side != HullSide::OnBoundary {
            match hull.is_point_outside(&lp, tri) {
                Ok(o) => {
                    if o != (side == HullSide::StrictlyOutside) {
                        log.violate(bad("is_point_outside_wrong", "is_point_outside", format!("{desc}: is_point_outside = {o}")).fact("side", format!("{side:?}")));
                        return false;
                    }
                }
                Err(e) => {
                    log.violate(bad("hull_query_error", "is_point_outside", format!("{desc}: Err({e}) on a fresh hull")));
                    return false;
                }
            }
        }
        // per-facet visibility
        for (i, fh) in hull.facets().enumerate() {
            if undecided.contains(&i) {
                continue;
            }
            match hull.is_facet_visible_from_point(fh, &lp, tri) {
                Ok(v) => {
                    if v != strictly_visible.contains(&i) {
                        log.violate(bad("facet_visibility_wrong", "is_facet_visible_from_point", format!("{desc}: facet #{i} {:?} reported visible={v}, exact {}", hull_facets[i].0, strictly_visible.contains(&i))));
                        return false;
                    }
                }
                Err(e) => {
                    log.violate(bad("hull_query_error", "is_facet_visible_from_point", format!("{desc}: Err({e}) on a fresh hull")));
                    return false;
                }
            }
        }
        // find_visible_facets: decided facets must be classified exactly
        match hull.find_visible_facets(&lp, tri) {
            Ok(list) => {
                let got: BTreeSet<usize> = list.iter().copied().collect();
                for i in 0..hull_facets.len() {
                    if undecided.contains(&i) {
                        continue;
                    }
                    if got.contains(&i) != strictly_visible.contains(&i) {
                        log.violate(bad("visible_set_wrong", "find_visible_facets", format!("{desc}: facet #{i} in result = {}, exact visibility {}", got.contains(&i), strictly_visible.contains(&i))));
                        return false;
                    }
                }
                if got.iter().any(|&i| i >= hull_facets.len()) {
                    log.violate(bad("visible_set_wrong", "find_visible_facets", format!("{desc}: index out of range in {:?}", list)));
                    return false;
                }
            }
            Err(e) => {
                log.violate(bad("hull_query_error", "find_visible_facets", format!("{desc}: Err({e}) on a fresh hull")));
                return false;
            }
        }
        match hull.find_nearest_visible_facet(&lp, tri) {
            Ok(Some(i)) => {
                if i >= hull_facets.len() || (!strictly_visible.contains(&i) && !undecided.contains(&i)) {
                    log.violate(bad("nearest_visible_wrong", "find_nearest_visible_facet", format!("{desc}: returned facet #{i} which is not visible")));
                    return false;
                }
            }
            Ok(None) => {
                if !strictly_visible.is_empty() {
                    log.violate(bad("nearest_visible_wrong", "find_nearest_visible_facet", format!("{desc}: returned None although {} facets are strictly visible", strictly_visible.len())));
                    return false;
                }
            }
            Err(e) => {
                log.violate(bad("hull_query_error", "find_nearest_visible_facet", format!("{desc}: Err({e}) on a fresh hull")));
                return false;
            }
        }
    }
    true
}

/// every query must report staleness
fn stale_checks<K: Kern<D>, const D: usize>(w: &World<K, D>, hull: &Hull<K, D>, q: &[f64], ctx: &str, opname: &str, restore_pending: bool, restored_since_hull: bool, log: &mut CaseLog) {
    let tri = w.dt.as_triangulation();
    let lp = mk_point::<D>(q);
    let mk = |site: &str, msg: String| Violation::new(ID, "stale_hull_served", site, format!("{ctx}: {msg}")).fact("dim", D as u64).fact("after_op", opname).fact("restore_pending", restore_pending).fact("restored_since_hull", restored_since_hull);
    log.evals += 1;
    if hull.is_valid_for_triangulation(tri) {
        log.violate(mk("is_valid_for_triangulation", "the triangulation changed after the hull was created but is_valid_for_triangulation() is still true".into()));
    }
    if !matches!(hull.validate(tri), Err(ConvexHullValidationError::StaleHull { .. })) {
        log.violate(mk("validate", "validate() did not report StaleHull".into()));
    }
    if !matches!(hull.find_visible_facets(&lp, tri), Err(ConvexHullConstructionError::StaleHull { .. })) {
        log.violate(mk("find_visible_facets", "answered instead of reporting StaleHull".into()));
    }
    if !matches!(hull.find_nearest_visible_facet(&lp, tri), Err(ConvexHullConstructionError::StaleHull { .. })) {
        log.violate(mk("find_nearest_visible_facet", "answered instead of reporting StaleHull".into()));
    }
    if !matches!(hull.is_point_outside(&lp, tri), Err(ConvexHullConstructionError::StaleHull { .. })) {
        log.violate(mk("is_point_outside", "answered instead of reporting StaleHull".into()));
    }
    if let Some(fh) = hull.facets().next() {
        if !matches!(hull.is_facet_visible_from_point(fh, &lp, tri), Err(ConvexHullConstructionError::StaleHull { .. })) {
            log.violate(mk("is_facet_visible_from_point", "answered instead of reporting StaleHull".into()));
        }
    }
}

fn run<K: Kern<D>, const D: usize>(case: &Case, log: &mut CaseLog) {
    log.class(format!("D{D}"));
    let Some(mut w) = start_world::<K, D>(&case.start, case.salt) else {
        log.class("start:construction_err");
        return;
    };
    let mut before = w.snap();
    for op in &case.pre {
        let (_r, out) = w.apply(&before, op);
        if matches!(out, Outcome::SetPanicked { .. }) {
            return;
        }
        before = w.snap();
    }
    if before.cells.is_empty() {
        log.class("no_cells_at_hull_creation");
        return;
    }
    let hull: Hull<K, D> = match ConvexHull::from_triangulation(w.dt.as_triangulation()) {
        Ok(h) => h,
        Err(_) => {
            log.class("hull_creation_err");
            return;
        }
    };
    let s0 = before.clone();
    let fp0 = w.fingerprint(&s0);
    if std::env::var_os("DVCHECK_DEBUG").is_some() {
        eprintln!("hull created at generation {}", w.dt.tds().generation());
    }
    let queries: Vec<Vec<f64>> = {
        let mut q: Vec<Vec<f64>> = case.queries.iter().map(|e| (0..D).map(|j| *e.get(j).unwrap_or(&0) as f64 / 4.0).collect()).collect();
        // centroid of all vertices (inside) and far corners (outside)
        let mut cen = vec![0.0; D];
        for v in &s0.verts {
            for j in 0..D {
                cen[j] += v.coords[j] / s0.verts.len() as f64;
            }
        }
        q.push(cen.clone());
        q.push(cen.iter().enumerate().map(|(j, c)| c + 1000.0 + j as f64).collect());
        q.push(cen.iter().map(|c| c - 777.0).collect());
        // just beyond each of the first hull facets
        if let Some(cells) = s0.cell_indices() {
            for (f, opp) in crate::oracle::delaunay::boundary_facets(&cells).iter().take(6) {
                let mut c = vec![0.0; D];
                for &i in f {
                    for j in 0..D {
                        c[j] += s0.verts[i].coords[j] / D as f64;
                    }
                }
                q.push((0..D).map(|j| c[j] + (c[j] - s0.verts[*opp].coords[j]) * 0.5).collect());
                q.push((0..D).map(|j| c[j] - (c[j] - s0.verts[*opp].coords[j]) * 0.125).collect());
            }
        }
        q
    };
    // static part on certified states
    let g = guarantee_of(w.dt.topology_guarantee());
    let cert = certify(&s0, &CertOpts { levels: Opts::ball(g, true), delaunay: false, convex: true, coverage: false, reference: false });
    let certified = cert.problems().is_empty() && cert.convex_in_band == 0 && cert.levels.orient_in_band == 0 && s0.all_finite();
    let mut nontrivial = false;
    if certified {
        log.class("static:certified");
        if !static_checks(&w, &s0, &hull, &queries, log) {
            return;
        }
        if hull.number_of_facets() >= D + 3 {
            nontrivial = true;
        }
    } else {
        log.class("static:not_certified(skipped)");
    }
    // staleness part
    // Some(g): the harness swapped in an older clone and the shared generation counter has not moved since
    let mut gen_at_restore: Option<u64> = None;
    let mut restored_since_hull = false;
    for (step, op) in case.post.iter().enumerate() {
        let (res, out) = w.apply(&before, op);
        if matches!(out, Outcome::SetPanicked { .. }) {
            return;
        }
        let after = w.snap();
        if std::env::var_os("DVCHECK_DEBUG").is_some() {
            eprintln!("post step {step}: {} -> {} generation now {}", res.desc, out.label(), w.dt.tds().generation());
        }
        if matches!(out, Outcome::Restored) {
            gen_at_restore = Some(w.dt.tds().generation());
        }
        let restore_pending = gen_at_restore == Some(w.dt.tds().generation());
        let fp = w.fingerprint(&after);
        // the hull refers to cells and vertices by key: the same complex under other keys (e.g. a
        // restored clone taken before a flip and its inverse) is a different triangulation for it
        let same_keys = after.cells.len() == s0.cells.len()
            && after.cells.iter().zip(&s0.cells).all(|(a, b)| a.key == b.key && a.verts == b.verts)
            && after.verts.len() == s0.verts.len()
            && after.verts.iter().zip(&s0.verts).all(|(a, b)| a.key == b.key);
        let changed = fp.vertices != fp0.vertices || fp.cells != fp0.cells || fp.neighbors != fp0.neighbors || !same_keys;
        // did the harness ever continue on a clone from another generation-counter lineage?
        if matches!(out, Outcome::Restored) {
            restored_since_hull = true;
        }
        log.class(format!("post:{}:{}", out.label(), if changed { "changed" } else { "unchanged" }));
        if changed {
            nontrivial = true;
            let n_before = log.violations.len();
            stale_checks(&w, &hull, &queries[0], &format!("after post step {step} ({}) -> {}", res.desc, out.label()), out.label(), restore_pending, restored_since_hull, log);
            // a hull still served after the harness swapped in an older clone (and before the shared
            // counter moves again) is its own known class; the history continues so that later
            // mutations are still judged
            if log.violations.len() > n_before && !restore_pending && !restored_since_hull {
                return;
            }
        } else if certified && hull.is_valid_for_triangulation(w.dt.as_triangulation()) {
            // unchanged and not reported stale: answers must still be correct
            if !static_checks(&w, &after, &hull, &queries[..queries.len().min(4)], log) {
                return;
            }
            log.class("unchanged_and_still_served");
        }
        before = after;
    }
    if nontrivial {
        log.nontrivial_hash(hash_of(&serde_json::to_string(case).unwrap_or_default()));
    }
}

pub fn exec(case: &Case, log: &mut CaseLog) {
    if !(2..=5).contains(&case.dim) || case.start.points.iter().any(|p| p.len() != case.dim) {
        return;
    }
    dispatch_kd!(case.dim, case.robust, run, case, log)
}

pub const PRE: OpMix = OpMix { insert: 6, remove: 1, flips: 2, repair: 1, setters: 1, clone: 3, adversarial_uuid: false };
pub const POST: OpMix = OpMix { insert: 6, remove: 4, flips: 6, repair: 3, setters: 1, clone: 5, adversarial_uuid: true };

pub fn strategy(dim: usize, max_ops: usize) -> BoxedStrategy<Case> {
    let nmax = match dim {
        2 => 14,
        3 => 11,
        4 => 8,
        _ => 8,
    };
    (any::<bool>(), any::<u64>(), start_strategy(dim, nmax, 1), proptest::collection::vec(op_strategy(dim, PRE), 0..=max_ops / 2), proptest::collection::vec(op_strategy(dim, POST), 0..=max_ops), proptest::collection::vec(proptest::collection::vec(-60i16..=60, dim), 0..6))
        .prop_map(move |(robust, salt, start, pre, post, queries)| Case { dim, robust, salt, start, pre, post, queries })
        .boxed()
}

/// "snapshot, edit, take the hull, go back to the snapshot, edit differently": the two edits are of
/// the same kind, so they tend to advance the generation by the same amount; a hull that can only
/// tell triangulations apart by that number must still not answer for the second one.
pub fn collision_strategy(dim: usize) -> BoxedStrategy<Case> {
    let nmax = match dim {
        2 => 12,
        3 => 10,
        _ => 8,
    };
    let ins = || op_strategy(dim, OpMix { insert: 1, remove: 0, flips: 0, repair: 0, setters: 0, clone: 0, adversarial_uuid: false });
    let edit = || op_strategy(dim, OpMix { insert: 4, remove: 2, flips: 2, repair: 0, setters: 0, clone: 0, adversarial_uuid: false });
    (any::<bool>(), any::<u64>(), start_strategy(dim, nmax, 1), proptest::collection::vec(ins(), 0..=2), edit(), edit(), proptest::collection::vec(edit(), 0..=3), proptest::collection::vec(proptest::collection::vec(-60i16..=60, dim), 0..4))
        .prop_map(move |(robust, salt, start, mut pre, e1, e2, tail, queries)| {
            pre.push(Op::Snapshot);
            pre.push(e1);
            let mut post = vec![Op::Restore, e2];
            post.extend(tail);
            Case { dim, robust, salt, start, pre, post, queries }
        })
        .boxed()
}

pub fn run_shard(ctx: &mut Ctx) {
    let thorough = ctx.tier == Tier::Thorough;
    let max_ops = if thorough { 24 } else { 8 };
    for dim in 2..=5usize {
        let total = match (ctx.tier, dim) {
            (Tier::Quick, 2) => 1200,
            (Tier::Quick, 3) => 900,
            (Tier::Quick, 4) => 450,
            (Tier::Quick, _) => 250,
            (Tier::Thorough, 2) => 24_000,
            (Tier::Thorough, 3) => 18_000,
            (Tier::Thorough, 4) => 9_000,
            (Tier::Thorough, _) => 5_000,
        };
        let n = ctx.share(total);
        ctx.run_cases(&format!("hull_history_d{dim}"), n, strategy(dim, max_ops), &|c, l| exec(c, l));
        let nc = ctx.share(total / 3);
        ctx.run_cases(&format!("snapshot_collision_d{dim}"), nc, collision_strategy(dim), &|c, l| exec(c, l));
    }
}

pub fn replay(_label: &str, case: &Value, ctx: &mut Ctx) -> Option<Violation> {
    let c: Case = serde_json::from_value(case.clone()).ok()?;
    ctx.run_one("replay", &c, &|c, l| exec(c, l))
}

pub fn meta() -> super::Meta {
    super::Meta {
        id: ID,
        level: "exploration",
        rule: "stateful: start state + generated operations, then ConvexHull::from_triangulation, then further generated operations (insert, remove, every flip, repair plain/advanced, setters, clone - including failing and rolled-back ones) with all six hull queries after each; (a) on independently certified states the hull facets must equal the facets incident to one cell, form a closed surface with every vertex on the inner side, and is_point_outside / per-facet visibility / find_visible_facets / find_nearest_visible_facet must agree with exact arithmetic for generated, inside, far-outside and just-beyond-each-facet queries (only decidable point-facet pairs are judged); (b) whenever the vertex/cell/neighbour fingerprint differs from the one at creation every query must report staleness; unchanged and still-served hulls must keep answering correctly; evaluations = query groups; non-trivial = fingerprint changed after creation, or a certified instance with >= D+3 hull facets; distinct by the whole case",
        assumptions: &[
            "policy changes alone are not 'a change to the triangulation'",
            "facets whose hyperplane contains the query (exactly or within the band) are not judged for visibility",
        ],
        exhaustive: false,
        max_shards: 8,
    }
}
