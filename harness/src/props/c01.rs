//! C01 — every successful batch construction returns a certified Delaunay triangulation.

use crate::driver::ctx::{hash_of, CaseLog, Ctx, Tier, Violation};
use crate::gen::points::{max_n, point_set, uuid_for, PointSet};
use crate::gen::world::{guarantee_of, mk_vertex, opt_spec, snap_of, Dt, Kern, OptSpec};
use crate::oracle::certify::{certify, CertOpts};
use crate::oracle::levels::Opts;
use crate::oracle::snap::{DataVal, Snap};
use delaunay::core::builder::DelaunayTriangulationBuilder;
use delaunay::core::delaunay_triangulation::{ConstructionStatistics, DelaunayTriangulation};
use delaunay::core::vertex::Vertex;
use delaunay::geometry::kernel::{FastKernel, RobustKernel};
use proptest::prelude::*;
use serde::{Deserialize, Serialize};
use serde_json::Value;
use std::collections::HashMap;

pub const ID: &str = "C01";

#[derive(Debug, Clone, Serialize, Deserialize)]
pub struct Case {
    pub dim: usize,
    pub robust: bool,
    pub with_data: bool,
    pub entry: u8,
    pub opts: OptSpec,
    pub uuid_salt: u64,
    pub points: PointSet,
}

pub const GENERIC_ENTRIES: [&str; 5] = [
    "with_kernel",
    "with_topology_guarantee",
    "with_topology_guarantee_and_options",
    "with_topology_guarantee_and_options_with_construction_statistics",
    "builder.build_with_kernel",
];
pub const PLAIN_ENTRIES: [&str; 6] = [
    "new",
    "new_with_options",
    "new_with_topology_guarantee",
    "new_with_construction_statistics",
    "new_with_options_and_construction_statistics",
    "builder.build",
];

pub struct Built<K: Kern<D>, U: DataVal, const D: usize> {
    pub dt: Dt<K, U, D>,
    pub stats: Option<ConstructionStatistics>,
    /// the options/guarantee that were really in force for this entry point
    pub effective: OptSpec,
}

pub fn input_vertices<U: DataVal, const D: usize>(case_pts: &[Vec<f64>], salt: u64, with_data: bool) -> Vec<Vertex<f64, U, D>> {
    case_pts
        .iter()
        .enumerate()
        .map(|(i, p)| mk_vertex::<U, D>(p, uuid_for(salt, i), if with_data { Some(i as i64 * 7 - 3) } else { None }))
        .collect()
}

pub fn build_generic<K: Kern<D>, U: DataVal, const D: usize>(entry: usize, opts: &OptSpec, verts: &[Vertex<f64, U, D>]) -> Result<Built<K, U, D>, String> {
    let k = K::make();
    let def = OptSpec::default_spec();
    match entry % GENERIC_ENTRIES.len() {
        0 => Dt::<K, U, D>::with_kernel(&k, verts).map(|dt| Built { dt, stats: None, effective: def }).map_err(|e| e.to_string()),
        1 => Dt::<K, U, D>::with_topology_guarantee(&k, verts, opts.guarantee())
            .map(|dt| Built { dt, stats: None, effective: OptSpec { guarantee: opts.guarantee, ..def } })
            .map_err(|e| e.to_string()),
        2 => Dt::<K, U, D>::with_topology_guarantee_and_options(&k, verts, opts.guarantee(), opts.options())
            .map(|dt| Built { dt, stats: None, effective: *opts })
            .map_err(|e| e.to_string()),
        3 => Dt::<K, U, D>::with_topology_guarantee_and_options_with_construction_statistics(&k, verts, opts.guarantee(), opts.options())
            .map(|(dt, st)| Built { dt, stats: Some(st), effective: *opts })
            .map_err(|e| e.to_string()),
        _ => DelaunayTriangulationBuilder::from_vertices(verts)
            .topology_guarantee(opts.guarantee())
            .construction_options(opts.options())
            .build_with_kernel::<K, ()>(&k)
            .map(|dt| Built { dt, stats: None, effective: *opts })
            .map_err(|e| e.to_string()),
    }
}

fn build_plain<const D: usize>(entry: usize, opts: &OptSpec, verts: &[Vertex<f64, (), D>]) -> Result<Built<FastKernel<f64>, (), D>, String> {
    type P<const D: usize> = DelaunayTriangulation<FastKernel<f64>, (), (), D>;
    let def = OptSpec::default_spec();
    match entry % PLAIN_ENTRIES.len() {
        0 => P::<D>::new(verts).map(|dt| Built { dt, stats: None, effective: def }).map_err(|e| e.to_string()),
        1 => P::<D>::new_with_options(verts, opts.options()).map(|dt| Built { dt, stats: None, effective: OptSpec { guarantee: def.guarantee, ..*opts } }).map_err(|e| e.to_string()),
        2 => P::<D>::new_with_topology_guarantee(verts, opts.guarantee()).map(|dt| Built { dt, stats: None, effective: OptSpec { guarantee: opts.guarantee, ..def } }).map_err(|e| e.to_string()),
        3 => P::<D>::new_with_construction_statistics(verts).map(|(dt, st)| Built { dt, stats: Some(st), effective: def }).map_err(|e| e.to_string()),
        4 => P::<D>::new_with_options_and_construction_statistics(verts, opts.options())
            .map(|(dt, st)| Built { dt, stats: Some(st), effective: OptSpec { guarantee: def.guarantee, ..*opts } })
            .map_err(|e| e.to_string()),
        _ => DelaunayTriangulationBuilder::new(verts)
            .topology_guarantee(opts.guarantee())
            .construction_options(opts.options())
            .build::<()>()
            .map(|dt| Built { dt, stats: None, effective: *opts })
            .map_err(|e| e.to_string()),
    }
}

/// Checks shared by C01 and other properties that construct: everything the property demands of
/// an `Ok` result.  Returns (kind, detail) problems.
pub fn check_ok_result(
    snap: &Snap,
    input: &[Vec<f64>],
    salt: u64,
    with_data: bool,
    stats: Option<&ConstructionStatistics>,
    effective: &OptSpec,
    reported_vertices: usize,
    log: &mut CaseLog,
) -> Vec<(String, String, Vec<(&'static str, Value)>)> {
    let d = snap.dim;
    let g = guarantee_of(effective.guarantee());
    let cert = certify(
        snap,
        &CertOpts { levels: Opts::ball(g, true), delaunay: true, convex: true, coverage: true, reference: true },
    );
    // the library's in-sphere tolerance is absolute: below ~1e-5 every in-sphere determinant of the
    // input is inside it (coordinate extent of the stored vertices)
    let small_scale = {
        let pts = snap.points();
        let mut ext = 0.0f64;
        for j in 0..d {
            let lo = pts.iter().map(|p| p[j]).fold(f64::INFINITY, f64::min);
            let hi = pts.iter().map(|p| p[j]).fold(f64::NEG_INFINITY, f64::max);
            ext = ext.max(hi - lo);
        }
        ext < 1e-5
    };
    // clusters of near-duplicate points: two stored vertices closer than 1e-8 of the extent
    let near_duplicates = {
        let pts = snap.points();
        let mut ext = 0.0f64;
        for j in 0..d {
            let lo = pts.iter().map(|p| p[j]).fold(f64::INFINITY, f64::min);
            let hi = pts.iter().map(|p| p[j]).fold(f64::NEG_INFINITY, f64::max);
            ext = ext.max(hi - lo);
        }
        let mut close = false;
        for a in 0..pts.len() {
            for b in a + 1..pts.len() {
                let dd: f64 = pts[a].iter().zip(&pts[b]).map(|(x, y)| (x - y) * (x - y)).sum();
                if dd.sqrt() < 1e-8 * ext {
                    close = true;
                }
            }
        }
        close
    };
    let mut problems: Vec<(String, String, Vec<(&'static str, Value)>)> = cert
        .problems()
        .into_iter()
        .map(|(k, det)| {
            let facts: Vec<(&'static str, Value)> = match k.as_str() {
                "not_delaunay" => vec![("cause", Value::from(cert.violation_class))],
                "nonconvex_boundary" => vec![
                    ("tiny_facet", Value::from(cert.convex_min_rel_facet < 1e-4)),
                    ("coplanar_input", Value::from(has_cohyperplanar_subset(input))),
                    ("small_scale", Value::from(small_scale)),
                    ("near_duplicates", Value::from(near_duplicates)),
                ],
                // overlapping / missing cover goes with a non-convex boundary: same discriminators
                "coverage" => vec![
                    ("nonconvex_also", Value::from(!cert.convex_decidable.is_empty())),
                    ("tiny_facet", Value::from(cert.convex_min_rel_facet < 1e-4)),
                    ("coplanar_input", Value::from(has_cohyperplanar_subset(input))),
                    ("small_scale", Value::from(small_scale)),
                ],
                _ => vec![],
            };
            (k, det, facts)
        })
        .collect();
    if std::env::var_os("DVCHECK_DEBUG").is_some() {
        eprintln!("points: {:?}\ncells: {:?}\nconvex_in_band={} convex_decidable={:?} class={} gp={:?} ref={:?} {}\nlevels: {:?}", snap.points(), snap.cell_indices(), cert.convex_in_band, cert.convex_decidable, cert.violation_class, cert.general_position, cert.ref_equal, cert.ref_detail, cert.levels.issues);
    }
    if cert.levels.orient_in_band > 0 {
        log.class("orientation_in_band");
    }
    if let Some(dr) = &cert.delaunay {
        if dr.violations.iter().any(|v| !v.decidable) {
            log.class("delaunay_violation_in_band");
        }
    }
    match cert.general_position {
        Some(true) => log.class("general_position"),
        Some(false) => log.class("degenerate_position"),
        None => {}
    }
    if cert.ref_equal == Some(true) {
        log.class("equals_reference_dt");
    }
    if cert.coverage_used > 0 {
        log.class("coverage_sampled");
    }
    // ---- vertex accounting ----
    let by_uuid: HashMap<u128, usize> = (0..input.len()).map(|i| (uuid_for(salt, i).as_u128(), i)).collect();
    let maxdist = {
        let mut m = 0.0f64;
        for a in input {
            for b in input {
                let s: f64 = a.iter().zip(b).map(|(x, y)| (x - y) * (x - y)).sum();
                m = m.max(s.sqrt());
            }
        }
        m.max(1e-15)
    };
    let mut displaced = 0usize;
    for v in &snap.verts {
        match by_uuid.get(&v.uuid) {
            None => problems.push(("vertex_not_from_input".into(), format!("vertex uuid {:032x} at {:?} is not an input vertex", v.uuid, v.coords), vec![])),
            Some(&i) => {
                let want = if with_data { Some(i as i64 * 7 - 3) } else { None };
                if v.data != want {
                    problems.push(("vertex_data_changed".into(), format!("vertex #{i} data {:?} != input {:?}", v.data, want), vec![]));
                }
                let same = v.coords.iter().zip(&input[i]).all(|(a, b)| a.to_bits() == b.to_bits() || (*a == 0.0 && *b == 0.0));
                if !same {
                    displaced += 1;
                    for (j, (a, b)) in v.coords.iter().zip(&input[i]).enumerate() {
                        let bound = 1e-8 * (j as f64 + 1.0) * maxdist * (1.0 + 1e-3) + f64::MIN_POSITIVE;
                        let ulp_slack = 4.0 * f64::EPSILON * b.abs().max(a.abs());
                        if (a - b).abs() > bound + ulp_slack {
                            problems.push((
                                "vertex_displaced_beyond_perturbation".into(),
                                format!("vertex #{i} coordinate {j}: {a:e} vs input {b:e}, |delta| {:e} > bound {:e}", (a - b).abs(), bound),
                                vec![],
                            ));
                        }
                    }
                }
            }
        }
    }
    if displaced > 0 {
        log.class("perturbed_vertices");
    }
    if reported_vertices != snap.verts.len() {
        problems.push(("number_of_vertices_mismatch".into(), format!("number_of_vertices()={} but {} vertices iterated", reported_vertices, snap.verts.len()), vec![]));
    }
    if let Some(st) = stats {
        if st.inserted != snap.verts.len() {
            problems.push(("stats_inserted_mismatch".into(), format!("statistics.inserted={} but {} vertices present", st.inserted, snap.verts.len()), vec![]));
        }
        let total = st.inserted + st.skipped_duplicate + st.skipped_degeneracy;
        let dedup_off = effective.dedup % 6 == 0;
        if dedup_off && total != input.len() {
            problems.push(("stats_total_mismatch".into(), format!("inserted+skipped={} but {} vertices offered (dedup off)", total, input.len()), vec![]));
        }
        if total > input.len() {
            problems.push(("stats_total_mismatch".into(), format!("inserted+skipped={} exceeds the {} vertices offered", total, input.len()), vec![]));
        }
        if st.skipped_duplicate + st.skipped_degeneracy > 0 {
            log.class("has_skips");
        }
        // nothing may be counted as duplicate when all inputs are far apart
        if dedup_off && st.skipped_duplicate > 0 {
            let mut mind = f64::INFINITY;
            for (i, a) in input.iter().enumerate() {
                for b in &input[i + 1..] {
                    let s: f64 = a.iter().zip(b).map(|(x, y)| (x - y) * (x - y)).sum();
                    mind = mind.min(s.sqrt());
                }
            }
            if mind > 1e-6 * maxdist + 1e-9 {
                problems.push(("false_duplicate_skip".into(), format!("{} inputs counted as duplicates although the closest pair is {:e} apart", st.skipped_duplicate, mind), vec![]));
            }
        }
        // a skipped-as-duplicate sample must have a present vertex within tolerance (allowing for its own perturbation)
        for s in &st.skip_samples {
            if s.error.contains("uplicate") && s.error.contains("oordinate") {
                let near = snap.verts.iter().any(|v| {
                    let d2: f64 = v.coords.iter().zip(&s.coords).map(|(x, y)| (x - y) * (x - y)).sum();
                    d2.sqrt() <= 1e-10 + 1e-7 * maxdist * d as f64
                });
                if !near {
                    problems.push(("duplicate_skip_without_neighbour".into(), format!("input #{} {:?} skipped as duplicate but no present vertex is near it", s.index, s.coords), vec![]));
                }
            }
        }
    }
    if snap.verts.len() < input.len() {
        log.class("fewer_vertices_than_input");
    }
    problems
}

/// Do some D+1 of the points lie exactly on a common hyperplane (including repeated points)?
pub fn has_cohyperplanar_subset(pts: &[Vec<f64>]) -> bool {
    if pts.iter().any(|p| p.iter().any(|x| !x.is_finite())) {
        return false;
    }
    let sp = crate::exact::geom::ScaledPoints::new(pts);
    let mut found = false;
    crate::exact::geom::for_each_subset(pts.len(), sp.dim + 1, |s| {
        if sp.orient(s) == 0 {
            found = true;
        }
        !found
    });
    found
}

fn run<K: Kern<D>, U: DataVal, const D: usize>(case: &Case, log: &mut CaseLog) {
    let verts: Vec<Vertex<f64, U, D>> = input_vertices::<U, D>(&case.points.pts, case.uuid_salt, case.with_data && U::HAS_DATA);
    let entry_name = GENERIC_ENTRIES[case.entry as usize % GENERIC_ENTRIES.len()];
    let built: Result<Built<K, U, D>, String> = build_generic::<K, U, D>(case.entry as usize, &case.opts, &verts);
    finish::<K, U, D>(case, entry_name, built, log);
}

fn run_plain<const D: usize>(case: &Case, log: &mut CaseLog) {
    let verts: Vec<Vertex<f64, (), D>> = input_vertices::<(), D>(&case.points.pts, case.uuid_salt, false);
    let entry_name = PLAIN_ENTRIES[case.entry as usize % PLAIN_ENTRIES.len()];
    let built = build_plain::<D>(case.entry as usize, &case.opts, &verts);
    finish::<FastKernel<f64>, (), D>(case, entry_name, built, log);
}

fn finish<K: Kern<D>, U: DataVal, const D: usize>(case: &Case, entry_name: &str, built: Result<Built<K, U, D>, String>, log: &mut CaseLog) {
    log.class(format!("D{D}"));
    log.class(format!("kernel:{}", K::NAME));
    log.class(format!("family:{}", case.points.family));
    log.class(format!("entry:{entry_name}"));
    log.class(format!("order:{}", case.opts.order % 4));
    log.class(format!("dedup:{}", case.opts.dedup % 6));
    log.class(format!("retry:{}", case.opts.retry % 6));
    log.class(format!("initial:{}", case.opts.initial % 2));
    log.class(format!("guarantee:{}", case.opts.guarantee % 3));
    match built {
        Err(_) => {
            log.class("outcome:Err");
            log.class(format!("Err:D{D}"));
        }
        Ok(b) => {
            log.class("outcome:Ok");
            log.class(format!("Ok:D{D}"));
            let snap = snap_of(&b.dt);
            let with_data = case.with_data && U::HAS_DATA;
            let problems = check_ok_result(&snap, &case.points.pts, case.uuid_salt, with_data, b.stats.as_ref(), &b.effective, b.dt.number_of_vertices(), log);
            if b.dt.topology_guarantee() != b.effective.guarantee() {
                log.violate(Violation::new(ID, "guarantee_not_applied", entry_name, format!("requested {:?}, triangulation reports {:?}", b.effective.guarantee(), b.dt.topology_guarantee())));
            }
            let lib_validate = if problems.is_empty() { Ok(()) } else { b.dt.validate().map_err(|e| e.to_string()) };
            if let Err(err) = &lib_validate {
                // root cause: the constructor returned Ok for something the library's own cumulative
                // validator rejects; the individual problems below are consequences of that
                let first = problems.first().map(|p| format!("{}: {}", p.0, p.1)).unwrap_or_default();
                log.violate(
                    Violation::new(ID, "ok_result_fails_own_validate", "construct", format!("Ok result of {entry_name} ({} kernel, D={D}, {}) is rejected by dt.validate(): {err}; independent oracle: {first}", K::NAME, b.effective.label()))
                        .fact("dim", D as u64)
                        .fact("kernel", K::NAME)
                        .fact("entry", entry_name)
                        .fact("retry", (b.effective.retry % 6) as u64)
                        .fact("level4_only", err.contains("Delaunay property violation"))
                        .fact("dim_ge4", D >= 4)
                        .fact("guarantee", (b.effective.guarantee % 3) as u64),
                );
            } else {
                for (kind, detail, facts) in problems {
                    let mut v = Violation::new(ID, &kind, "construct", format!("Ok result of {entry_name} ({} kernel, D={D}, {}): {detail}", K::NAME, b.effective.label()))
                        .fact("dim", D as u64)
                        .fact("kernel", K::NAME)
                        .fact("entry", entry_name)
                        .fact("retry", (b.effective.retry % 6) as u64)
                        // does the shuffled-retry driver (the only place that verifies the bulk result
                        // globally) run for this call?  DebugOnlyShuffled is active only with debug assertions
                        .fact("retry_active", match b.effective.retry % 6 {
                            0 => false,
                            1..=3 => true,
                            _ => cfg!(debug_assertions),
                        })
                        .fact("guarantee", (b.effective.guarantee % 3) as u64);
                    for (k, val) in facts {
                        v = v.fact(k, val);
                    }
                    log.violate(v);
                }
            }
            if snap.verts.len() >= D + 2 {
                let mut bits: Vec<Vec<u64>> = case.points.pts.iter().map(|p| p.iter().map(|x| x.to_bits()).collect()).collect();
                bits.sort();
                log.nontrivial_hash(hash_of(&(D, K::NAME, case.opts.label(), case.entry, bits)));
            }
        }
    }
}

pub fn exec(case: &Case, log: &mut CaseLog) {
    if case.points.dim != case.dim || case.points.pts.iter().any(|p| p.len() != case.dim) {
        return;
    }
    let plain = case.entry >= 100;
    match (case.dim, case.robust, case.with_data, plain) {
        (2, _, _, true) => run_plain::<2>(case, log),
        (3, _, _, true) => run_plain::<3>(case, log),
        (4, _, _, true) => run_plain::<4>(case, log),
        (5, _, _, true) => run_plain::<5>(case, log),
        (2, false, _, _) => run::<FastKernel<f64>, i32, 2>(case, log),
        (3, false, _, _) => run::<FastKernel<f64>, i32, 3>(case, log),
        (4, false, _, _) => run::<FastKernel<f64>, i32, 4>(case, log),
        (5, false, _, _) => run::<FastKernel<f64>, i32, 5>(case, log),
        (2, true, _, _) => run::<RobustKernel<f64>, i32, 2>(case, log),
        (3, true, _, _) => run::<RobustKernel<f64>, i32, 3>(case, log),
        (4, true, _, _) => run::<RobustKernel<f64>, i32, 4>(case, log),
        (5, true, _, _) => run::<RobustKernel<f64>, i32, 5>(case, log),
        _ => {}
    }
}

pub fn case_strategy(dim: usize, thorough: bool) -> BoxedStrategy<Case> {
    let nmax = max_n(dim, thorough);
    (any::<bool>(), any::<bool>(), prop_oneof![4 => 0u8..5, 1 => 100u8..106], opt_spec(), any::<u64>(), point_set(dim, dim + 1, nmax))
        .prop_map(move |(robust, with_data, entry, opts, uuid_salt, points)| Case { dim, robust, with_data, entry, opts, uuid_salt, points })
        .boxed()
}

pub fn run_shard(ctx: &mut Ctx) {
    let thorough = ctx.tier == Tier::Thorough;
    for dim in 2..=5usize {
        let total = match (ctx.tier, dim) {
            (Tier::Quick, 2) => 2500,
            (Tier::Quick, 3) => 2000,
            (Tier::Quick, 4) => 1000,
            (Tier::Quick, _) => 500,
            (Tier::Thorough, 2) => 36_000,
            (Tier::Thorough, 3) => 30_000,
            (Tier::Thorough, 4) => 12_000,
            (Tier::Thorough, _) => 6_000,
        };
        let n = ctx.share(total);
        ctx.run_cases(&format!("construct_d{dim}"), n, case_strategy(dim, thorough), &|c, l| exec(c, l));
    }
}

pub fn replay(_label: &str, case: &Value, ctx: &mut Ctx) -> Option<Violation> {
    let c: Case = serde_json::from_value(case.clone()).ok()?;
    ctx.run_one("replay", &c, &|c, l| exec(c, l))
}

pub fn meta() -> super::Meta {
    super::Meta {
        id: ID,
        level: "exploration",
        rule: "case = (D in 2..5, kernel, entry point, ConstructionOptions, TopologyGuarantee, vertex data on/off, point set from families general/grid/cospherical/flat/clustered/neardup/scaled/fine) run in both build profiles; every Ok result is certified independently (L1-L3 incl. vertex links, exact empty-circumsphere outside the tolerance band, convex boundary, coverage samples, vertex accounting, statistics identities, equality with the brute-force Delaunay triangulation in general position for n<=14); non-trivial = Ok with >= D+2 vertices present; distinct by (D, kernel, options, entry, sorted coordinate bits)",
        assumptions: &[
            "Err is always acceptable for C01 (the Ok fraction is reported in classes)",
            "perturbation bound 1e-8*(axis+1)*max pairwise input distance (insert_transactional), duplicate tolerance 1e-10",
            "in-band (tolerance + rounding bound) circumsphere/orientation/convexity findings are counted, never reported",
        ],
        exhaustive: false,
        max_shards: 8,
    }
}
