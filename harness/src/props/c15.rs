//! C15 — topology and adjacency queries agree with the stored complex.

use crate::dispatch_kd;
use crate::driver::ctx::{hash_of, CaseLog, Ctx, Tier, Violation};
use crate::gen::history::{op_strategy, start_strategy, start_world, Op, OpMix, Outcome, Start, World};
use crate::gen::world::{guarantee_of, Kern};
use crate::oracle::levels::{check, Opts};
use crate::oracle::snap::{ckey_from_u64, ckey_u64, vkey_from_u64, vkey_u64, Snap};
use delaunay::core::traits::boundary_analysis::BoundaryAnalysis;
use delaunay::topology::characteristics::euler::{classify_triangulation, count_boundary_simplices, count_simplices, euler_characteristic, expected_chi_for, TopologyClassification};
use proptest::prelude::*;
use serde::{Deserialize, Serialize};
use serde_json::Value;
use std::collections::{BTreeMap, BTreeSet};

pub const ID: &str = "C15";

#[derive(Debug, Clone, Serialize, Deserialize)]
pub struct Case {
    pub dim: usize,
    pub robust: bool,
    pub salt: u64,
    pub start: Start,
    pub ops: Vec<Op>,
}

fn edge_pair(e: delaunay::core::edge::EdgeKey) -> (u64, u64) {
    let (a, b) = e.endpoints();
    let (a, b) = (vkey_u64(a), vkey_u64(b));
    if a <= b {
        (a, b)
    } else {
        (b, a)
    }
}

/// Is the set of cells containing `vk` connected through facets that contain `vk`?
fn star_facet_connected(s: &Snap, vk: u64) -> bool {
    let star: Vec<&crate::oracle::snap::SnapCell> = s.cells.iter().filter(|c| c.verts.contains(&vk)).collect();
    if star.len() <= 1 {
        return true;
    }
    let mut seen = vec![false; star.len()];
    let mut st = vec![0usize];
    seen[0] = true;
    let mut n = 1;
    while let Some(i) = st.pop() {
        for j in 0..star.len() {
            if !seen[j] {
                let common = star[i].verts.iter().filter(|k| star[j].verts.contains(k)).count();
                if common == s.dim {
                    seen[j] = true;
                    n += 1;
                    st.push(j);
                }
            }
        }
    }
    n == star.len()
}

fn check_state<K: Kern<D>, const D: usize>(w: &World<K, D>, s: &Snap, ctx: &str, log: &mut CaseLog) -> bool {
    let mut rep12 = check(s, Opts::structural_only());
    if s.cells.is_empty() {
        // bootstrap state: only isolated vertices
        rep12.f_vector = (0..=D).map(|k| if k == 0 { s.verts.len() as i64 } else { 0 }).collect();
        rep12.chi = s.verts.len() as i64;
    }
    if !rep12.ok_upto(2) {
        log.class("state_not_structurally_valid(skipped)");
        return false;
    }
    // the property quantifies over valid triangulations: levels 1-3 at the strength of the configured
    // guarantee (vertex links included for the PL guarantees); geometric embedding is irrelevant here
    if !s.cells.is_empty() {
        let g = guarantee_of(w.dt.topology_guarantee());
        let rep_valid = check(s, Opts { geometric_orientation: false, ..Opts::euclid(g, true) });
        if !rep_valid.ok_upto(3) {
            log.class("state_not_L3_valid_at_guarantee(skipped)");
            return false;
        }
    }
    let dt = &w.dt;
    let tri = dt.as_triangulation();
    let tds = dt.tds();
    let mut bad = |kind: &str, site: &str, msg: String, log: &mut CaseLog| {
        log.violate(Violation::new(ID, kind, site, format!("{ctx}: {msg}")).fact("dim", D as u64).fact("kernel", K::NAME));
    };
    // ---- brute force from the stored cells ----
    let mut edges: BTreeSet<(u64, u64)> = BTreeSet::new();
    let mut v_edges: BTreeMap<u64, BTreeSet<(u64, u64)>> = BTreeMap::new();
    let mut v_cells: BTreeMap<u64, BTreeSet<u64>> = BTreeMap::new();
    let mut facet_cells: BTreeMap<Vec<u64>, Vec<(u64, usize)>> = BTreeMap::new();
    for c in &s.cells {
        for i in 0..c.verts.len() {
            v_cells.entry(c.verts[i]).or_default().insert(c.key);
            for j in i + 1..c.verts.len() {
                let e = if c.verts[i] <= c.verts[j] { (c.verts[i], c.verts[j]) } else { (c.verts[j], c.verts[i]) };
                edges.insert(e);
                v_edges.entry(e.0).or_default().insert(e);
                v_edges.entry(e.1).or_default().insert(e);
            }
            let mut f: Vec<u64> = c.verts.iter().enumerate().filter(|(k, _)| *k != i).map(|(_, &k)| k).collect();
            f.sort_unstable();
            facet_cells.entry(f).or_default().push((c.key, i));
        }
    }
    let mut c_neigh: BTreeMap<u64, BTreeSet<u64>> = BTreeMap::new();
    for inc in facet_cells.values() {
        if inc.len() == 2 {
            c_neigh.entry(inc[0].0).or_default().insert(inc[1].0);
            c_neigh.entry(inc[1].0).or_default().insert(inc[0].0);
        }
    }
    let boundary: BTreeSet<(u64, usize)> = facet_cells.values().filter(|i| i.len() == 1).map(|i| i[0]).collect();

    // ---- edges ----
    let got: Vec<(u64, u64)> = dt.edges().map(edge_pair).collect();
    let got_set: BTreeSet<(u64, u64)> = got.iter().copied().collect();
    log.evals += 1;
    if got_set != edges || got.len() != edges.len() {
        bad("edges_mismatch", "edges", format!("edges() yields {} items / {} distinct, face enumeration gives {}", got.len(), got_set.len(), edges.len()), log);
    }
    if tri.number_of_edges() != edges.len() {
        bad("edges_mismatch", "number_of_edges", format!("number_of_edges()={} but {} edges enumerated", tri.number_of_edges(), edges.len()), log);
    }
    let index = match dt.build_adjacency_index() {
        Ok(i) => Some(i),
        Err(e) => {
            bad("adjacency_index_error", "build_adjacency_index", format!("build_adjacency_index failed on a structurally valid triangulation: {e}"), log);
            None
        }
    };
    if let Some(ix) = &index {
        let g: BTreeSet<(u64, u64)> = dt.edges_with_index(ix).map(edge_pair).collect();
        if g != edges {
            bad("edges_mismatch", "edges_with_index", format!("{} vs {} edges", g.len(), edges.len()), log);
        }
        if tri.number_of_edges_with_index(ix) != edges.len() {
            bad("edges_mismatch", "number_of_edges_with_index", format!("{} vs {}", tri.number_of_edges_with_index(ix), edges.len()), log);
        }
        let g: BTreeSet<(u64, u64)> = ix.edges().map(edge_pair).collect();
        if g != edges || ix.number_of_edges() != edges.len() {
            bad("edges_mismatch", "AdjacencyIndex::edges", format!("{} vs {} edges", g.len(), edges.len()), log);
        }
        // "indexed and non-indexed variants agree with each other": as values, not only as unordered
        // endpoint pairs — an EdgeKey is Eq + Hash, so the same edge must be the same key everywhere
        let raw = |e: delaunay::core::edge::EdgeKey| -> (u64, u64) {
            let (a, b) = e.endpoints();
            (vkey_u64(a), vkey_u64(b))
        };
        let plain: BTreeSet<(u64, u64)> = dt.edges().map(raw).collect();
        let indexed: BTreeSet<(u64, u64)> = dt.edges_with_index(ix).map(raw).collect();
        let from_index: BTreeSet<(u64, u64)> = ix.edges().map(raw).collect();
        let norm = |x: &BTreeSet<(u64, u64)>| -> BTreeSet<(u64, u64)> { x.iter().map(|&(a, b)| if a <= b { (a, b) } else { (b, a) }).collect() };
        if (plain != indexed && norm(&plain) == norm(&indexed)) || (plain != from_index && norm(&plain) == norm(&from_index)) {
            let d: Vec<_> = plain.symmetric_difference(&indexed).chain(plain.symmetric_difference(&from_index)).take(2).collect();
            bad("edge_keys_differ_between_variants", "edges_with_index", format!("edges() and the indexed enumerations return different EdgeKey values for the same edge (endpoint order), e.g. {:x?}", d), log);
        }
    }
    // ---- per vertex ----
    let empty_e: BTreeSet<(u64, u64)> = BTreeSet::new();
    let empty_c: BTreeSet<u64> = BTreeSet::new();
    let mut vkeys: Vec<u64> = s.verts.iter().map(|v| v.key).collect();
    vkeys.extend([0u64, 0x0000_0001_0000_7FFF, u64::MAX]); // missing / forged keys
    for vk in &vkeys {
        let live = s.verts.iter().any(|v| v.key == *vk);
        let k = vkey_from_u64(*vk);
        let want_e = v_edges.get(vk).unwrap_or(&empty_e);
        let want_c = v_cells.get(vk).unwrap_or(&empty_c);
        log.evals += 1;
        let ge: Vec<(u64, u64)> = dt.incident_edges(k).map(edge_pair).collect();
        if ge.iter().copied().collect::<BTreeSet<_>>() != *want_e || ge.len() != want_e.len() {
            log.violate(
                Violation::new(ID, "incident_edges_mismatch", "incident_edges", format!("{ctx}: vertex {:#x} (live={live}): {} returned, {} expected", vk, ge.len(), want_e.len()))
                    .fact("dim", D as u64)
                    .fact("star_facet_connected", star_facet_connected(s, *vk)),
            );
        }
        if tri.number_of_incident_edges(k) != want_e.len() {
            log.violate(
                Violation::new(ID, "incident_edges_mismatch", "number_of_incident_edges", format!("{ctx}: vertex {:#x}: {} vs {}", vk, tri.number_of_incident_edges(k), want_e.len()))
                    .fact("dim", D as u64)
                    .fact("star_facet_connected", star_facet_connected(s, *vk)),
            );
        }
        let gc: Vec<u64> = tri.adjacent_cells(k).map(ckey_u64).collect();
        if gc.iter().copied().collect::<BTreeSet<_>>() != *want_c || gc.len() != want_c.len() {
            log.violate(
                Violation::new(ID, "adjacent_cells_mismatch", "adjacent_cells", format!("{ctx}: vertex {:#x} (live={live}): {} returned, {} expected", vk, gc.len(), want_c.len()))
                    .fact("dim", D as u64)
                    .fact("star_facet_connected", star_facet_connected(s, *vk)),
            );
        }
        match (dt.vertex_coords(k), s.verts.iter().find(|v| v.key == *vk)) {
            (Some(c), Some(v)) => {
                if c.iter().zip(&v.coords).any(|(a, b)| a.to_bits() != b.to_bits()) {
                    bad("vertex_coords_mismatch", "vertex_coords", format!("vertex {:#x}", vk), log);
                }
            }
            (None, None) => {}
            (a, b) => bad("vertex_coords_mismatch", "vertex_coords", format!("vertex {:#x}: query {:?}, stored present={}", vk, a.map(|x| x.to_vec()), b.is_some()), log),
        }
        if let Some(ix) = &index {
            {
                let raw = |e: delaunay::core::edge::EdgeKey| -> (u64, u64) {
                    let (a, b) = e.endpoints();
                    (vkey_u64(a), vkey_u64(b))
                };
                let plain: BTreeSet<(u64, u64)> = dt.incident_edges(k).map(raw).collect();
                let indexed: BTreeSet<(u64, u64)> = dt.incident_edges_with_index(ix, k).map(raw).collect();
                let norm = |x: &BTreeSet<(u64, u64)>| -> BTreeSet<(u64, u64)> { x.iter().map(|&(a, b)| if a <= b { (a, b) } else { (b, a) }).collect() };
                // (only when both variants list the same edges: a partial answer is reported below)
                if plain != indexed && norm(&plain) == norm(&indexed) {
                    bad("edge_keys_differ_between_variants", "incident_edges_with_index", format!("vertex {:#x}: incident_edges() and incident_edges_with_index() return different EdgeKey values for the same edges", vk), log);
                }
            }
            let g: BTreeSet<(u64, u64)> = dt.incident_edges_with_index(ix, k).map(edge_pair).collect();
            if g != *want_e || tri.number_of_incident_edges_with_index(ix, k) != want_e.len() || ix.number_of_incident_edges(k) != want_e.len() {
                bad("incident_edges_mismatch", "incident_edges_with_index", format!("vertex {:#x}", vk), log);
            }
            let g: BTreeSet<u64> = tri.adjacent_cells_with_index(ix, k).map(ckey_u64).collect();
            if g != *want_c || tri.number_of_adjacent_cells_with_index(ix, k) != want_c.len() || ix.number_of_adjacent_cells(k) != want_c.len() {
                bad("adjacent_cells_mismatch", "adjacent_cells_with_index", format!("vertex {:#x}", vk), log);
            }
        }
    }
    // ---- per cell ----
    let mut ckeys: Vec<u64> = s.cells.iter().map(|c| c.key).collect();
    ckeys.extend([0u64, 0x0000_0001_0000_7FFF, u64::MAX]);
    for ck in &ckeys {
        let k = ckey_from_u64(*ck);
        let want = c_neigh.get(ck).unwrap_or(&empty_c);
        log.evals += 1;
        let g: Vec<u64> = dt.cell_neighbors(k).map(ckey_u64).collect();
        if g.iter().copied().collect::<BTreeSet<_>>() != *want || g.len() != want.len() {
            bad("cell_neighbors_mismatch", "cell_neighbors", format!("cell {:#x}: {:x?} vs {:x?}", ck, g, want), log);
        }
        // slot-wise neighbour query: slot i is the cell across the facet opposite vertex i (None on the boundary)
        {
            let got: Vec<Option<u64>> = dt.tds().find_neighbors_by_key(k).iter().map(|o| o.map(ckey_u64)).collect();
            match s.cells.iter().find(|c| c.key == *ck) {
                Some(c) => {
                    let mut want_slots: Vec<Option<u64>> = Vec::new();
                    let mut unique = true;
                    for i in 0..c.verts.len() {
                        let facet: BTreeSet<u64> = c.verts.iter().enumerate().filter(|(j, _)| *j != i).map(|(_, v)| *v).collect();
                        let others: Vec<u64> = s.cells.iter().filter(|o| o.key != c.key && facet.iter().all(|v| o.verts.contains(v))).map(|o| o.key).collect();
                        if others.len() > 1 {
                            unique = false;
                        }
                        want_slots.push(others.first().copied());
                    }
                    if unique && got != want_slots {
                        bad("cell_neighbors_mismatch", "find_neighbors_by_key", format!("cell {:#x}: slots {:x?} but the facets opposite its vertices are shared with {:x?}", ck, got, want_slots), log);
                    }
                }
                None => {
                    if got.len() != D + 1 || got.iter().any(|o| o.is_some()) {
                        bad("cell_neighbors_mismatch", "find_neighbors_by_key", format!("missing cell {:#x}: {:x?}", ck, got), log);
                    }
                }
            }
        }
        match (dt.cell_vertices(k), s.cells.iter().find(|c| c.key == *ck)) {
            (Some(vs), Some(c)) => {
                if vs.iter().map(|&v| vkey_u64(v)).collect::<Vec<_>>() != c.verts {
                    bad("cell_vertices_mismatch", "cell_vertices", format!("cell {:#x}", ck), log);
                }
            }
            (None, None) => {}
            _ => bad("cell_vertices_mismatch", "cell_vertices", format!("cell {:#x}: presence differs", ck), log),
        }
        if let Some(ix) = &index {
            let g: BTreeSet<u64> = dt.cell_neighbors_with_index(ix, k).map(ckey_u64).collect();
            if g != *want || tri.number_of_cell_neighbors_with_index(ix, k) != want.len() || ix.number_of_cell_neighbors(k) != want.len() {
                bad("cell_neighbors_mismatch", "cell_neighbors_with_index", format!("cell {:#x}", ck), log);
            }
        }
    }
    // ---- facets ----
    log.evals += 1;
    let all: Vec<(u64, usize)> = dt.facets().map(|f| (ckey_u64(f.cell_key()), f.facet_index() as usize)).collect();
    if all.len() != s.cells.len() * (D + 1) || all.iter().copied().collect::<BTreeSet<_>>().len() != all.len() {
        bad("facets_mismatch", "facets", format!("facets() yields {} (cell,facet) pairs for {} cells", all.len(), s.cells.len()), log);
    }
    let gb: Vec<(u64, usize)> = dt.boundary_facets().map(|f| (ckey_u64(f.cell_key()), f.facet_index() as usize)).collect();
    if gb.iter().copied().collect::<BTreeSet<_>>() != boundary || gb.len() != boundary.len() {
        bad("boundary_facets_mismatch", "boundary_facets", format!("boundary_facets() yields {}, facets lying in exactly one cell: {}", gb.len(), boundary.len()), log);
    }
    match tds.number_of_boundary_facets() {
        Ok(n) if n == boundary.len() => {}
        Ok(n) => bad("boundary_facets_mismatch", "number_of_boundary_facets", format!("{} vs {}", n, boundary.len()), log),
        Err(e) => bad("boundary_facets_mismatch", "number_of_boundary_facets", format!("Err({e})"), log),
    }
    for f in dt.facets() {
        let key = (ckey_u64(f.cell_key()), f.facet_index() as usize);
        match tds.is_boundary_facet(&f) {
            Ok(b) if b == boundary.contains(&key) => {}
            Ok(b) => {
                bad("boundary_facets_mismatch", "is_boundary_facet", format!("facet {:x?}: is_boundary_facet={} but enumeration says {}", key, b, boundary.contains(&key)), log);
                break;
            }
            Err(e) => {
                bad("boundary_facets_mismatch", "is_boundary_facet", format!("Err({e})"), log);
                break;
            }
        }
    }
    // ---- simplex counts / Euler characteristic ----
    let rep3 = check(s, Opts::ball(guarantee_of(dt.topology_guarantee()), false));
    log.evals += 1;
    match count_simplices(tds) {
        Ok(fv) => {
            let got: Vec<i64> = (0..=D).map(|k| fv.count(k) as i64).collect();
            if got != rep12.f_vector {
                bad("f_vector_mismatch", "count_simplices", format!("count_simplices {:?} vs enumerated {:?}", got, rep12.f_vector), log);
            }
            if euler_characteristic(&fv) as i64 != rep12.chi && got == rep12.f_vector {
                bad("euler_mismatch", "euler_characteristic", format!("{} vs {}", euler_characteristic(&fv), rep12.chi), log);
            }
        }
        Err(e) => bad("f_vector_mismatch", "count_simplices", format!("Err({e}) on a structurally valid triangulation"), log),
    }
    if !s.cells.is_empty() {
        match count_boundary_simplices(tds) {
            Ok(fv) => {
                let bchi: i64 = (0..D).map(|k| if k % 2 == 0 { fv.count(k) as i64 } else { -(fv.count(k) as i64) }).sum();
                if Some(bchi) != rep12.boundary_chi {
                    bad("boundary_counts_mismatch", "count_boundary_simplices", format!("boundary chi from counts {} vs enumerated {:?}", bchi, rep12.boundary_chi), log);
                }
                if fv.count(D - 1) != boundary.len() {
                    bad("boundary_counts_mismatch", "count_boundary_simplices", format!("{} boundary facets counted vs {}", fv.count(D - 1), boundary.len()), log);
                }
            }
            Err(e) => bad("boundary_counts_mismatch", "count_boundary_simplices", format!("Err({e})"), log),
        }
        // classification of independently L3-valid Euclidean states
        if rep3.ok_upto(3) {
            log.class("state_L3_valid");
            match classify_triangulation(tds) {
                Ok(c) => {
                    let ok = matches!(c, TopologyClassification::Ball(d) if d == D) || (s.cells.len() == 1 && matches!(c, TopologyClassification::SingleSimplex(d) if d == D));
                    if !ok {
                        bad("classification", "classify_triangulation", format!("{:?} for a valid Euclidean triangulation with {} cells", c, s.cells.len()), log);
                    }
                    if expected_chi_for(&c) != Some(1) || rep12.chi != 1 {
                        bad("classification", "expected_chi_for", format!("expected chi {:?}, computed chi {}", expected_chi_for(&c), rep12.chi), log);
                    }
                }
                Err(e) => bad("classification", "classify_triangulation", format!("Err({e})"), log),
            }
        }
    }
    true
}

fn run<K: Kern<D>, const D: usize>(case: &Case, log: &mut CaseLog) {
    log.class(format!("D{D}"));
    let Some(mut w) = start_world::<K, D>(&case.start, case.salt) else {
        log.class("start:construction_err");
        return;
    };
    let mut before = w.snap();
    let mut non_insert_mutations = 0usize;
    check_state(&w, &before, "initial state", log);
    for (step, op) in case.ops.iter().enumerate() {
        if !log.violations.is_empty() {
            return;
        }
        let (res, out) = w.apply(&before, op);
        if matches!(out, Outcome::SetPanicked { .. }) {
            break;
        }
        let after = w.snap();
        log.class(format!("op:{}", out.label()));
        if matches!(out, Outcome::Removed { known: true, .. } | Outcome::Flip(_) | Outcome::Repaired { .. }) {
            non_insert_mutations += 1;
        }
        if !matches!(out, Outcome::Set | Outcome::Noop) {
            check_state(&w, &after, &format!("after step {step} ({}) -> {}", res.desc, out.label()), log);
        }
        before = after;
    }
    if before.cells.len() >= D + 3 && non_insert_mutations >= 1 {
        log.nontrivial_hash(hash_of(&serde_json::to_string(case).unwrap_or_default()));
    }
}

pub fn exec(case: &Case, log: &mut CaseLog) {
    if !(2..=5).contains(&case.dim) || case.start.points.iter().any(|p| p.len() != case.dim) {
        return;
    }
    dispatch_kd!(case.dim, case.robust, run, case, log)
}

pub const MIX: OpMix = OpMix { insert: 5, remove: 3, flips: 6, repair: 2, setters: 1, clone: 1, adversarial_uuid: false };

pub fn strategy(dim: usize, max_ops: usize) -> BoxedStrategy<Case> {
    let nmax = match dim {
        2 => 14,
        3 => 11,
        4 => 8,
        _ => 8,
    };
    (any::<bool>(), any::<u64>(), start_strategy(dim, nmax, 1), proptest::collection::vec(op_strategy(dim, MIX), 0..=max_ops))
        .prop_map(move |(robust, salt, start, ops)| Case { dim, robust, salt, start, ops })
        .boxed()
}

pub fn run_shard(ctx: &mut Ctx) {
    let thorough = ctx.tier == Tier::Thorough;
    let max_ops = if thorough { 30 } else { 10 };
    for dim in 2..=5usize {
        let total = match (ctx.tier, dim) {
            (Tier::Quick, 2) => 1500,
            (Tier::Quick, 3) => 1200,
            (Tier::Quick, 4) => 600,
            (Tier::Quick, _) => 400,
            (Tier::Thorough, 2) => 30_000,
            (Tier::Thorough, 3) => 25_000,
            (Tier::Thorough, 4) => 12_000,
            (Tier::Thorough, _) => 8_000,
        };
        let n = ctx.share(total);
        ctx.run_cases(&format!("query_history_d{dim}"), n, strategy(dim, max_ops), &|c, l| exec(c, l));
    }
}

pub fn replay(_label: &str, case: &Value, ctx: &mut Ctx) -> Option<Violation> {
    let c: Case = serde_json::from_value(case.clone()).ok()?;
    ctx.run_one("replay", &c, &|c, l| exec(c, l))
}

pub fn meta() -> super::Meta {
    super::Meta {
        id: ID,
        level: "exploration",
        rule: "stateful: start state (empty or constructed) + generated insert / remove / all flips / repair / clone / setter operations; after every state-changing step every query (edges, number_of_edges, incident_edges, adjacent_cells, cell_neighbors, Tds::find_neighbors_by_key (slot by slot), cell_vertices, vertex_coords, facets, boundary_facets, number_of_boundary_facets, is_boundary_facet for every facet, the adjacency index and all *_with_index twins, count_simplices, euler_characteristic, count_boundary_simplices, classify_triangulation, expected_chi_for) is compared, for every live key plus missing/forged keys, with brute-force face enumeration of the stored cells; evaluations = query groups compared; non-trivial = final state with >= D+3 cells reached through >= 1 successful non-insert mutation; distinct by the whole case",
        assumptions: &[
            "only states whose independent L1/L2 check passes are compared (on a structurally broken complex 'the stored complex' is ambiguous)",
            "ball classification demanded only for states that pass the independent L3 check",
        ],
        exhaustive: false,
        max_shards: 8,
    }
}
