//! C12 — geometric predicates return the exact sign on well-conditioned input.

use crate::driver::ctx::{hash_of, CaseLog, Ctx, Tier, Violation};
use crate::exact::band::{analyze, insphere_matrix, lifted_matrix, orientation_matrix, Decision};
use crate::exact::geom::ScaledPoints;
use delaunay::geometry::kernel::{FastKernel, Kernel, RobustKernel};
use delaunay::geometry::point::Point;
use delaunay::geometry::predicates::{insphere, insphere_distance, insphere_lifted, simplex_orientation, InSphere, Orientation};
use delaunay::geometry::robust_predicates::{config_presets, robust_insphere, robust_orientation, RobustPredicateConfig};
use delaunay::geometry::traits::coordinate::Coordinate;
use proptest::prelude::*;
use serde::{Deserialize, Serialize};
use serde_json::Value;

pub const ID: &str = "C12";

#[derive(Debug, Clone, Serialize, Deserialize)]
pub struct Case {
    pub dim: usize,
    /// D+2 points: the simplex (D+1) followed by the query point
    pub pts: Vec<Vec<f64>>,
    /// how many extra permutations of the simplex to try (all if D<=3)
    pub perms: u8,
}

fn ori(o: Orientation) -> i32 {
    match o {
        Orientation::NEGATIVE => -1,
        Orientation::DEGENERATE => 0,
        Orientation::POSITIVE => 1,
    }
}
fn ins(o: InSphere) -> i32 {
    match o {
        InSphere::OUTSIDE => -1,
        InSphere::BOUNDARY => 0,
        InSphere::INSIDE => 1,
    }
}

fn permutations(n: usize, limit: usize, salt: u64) -> Vec<Vec<usize>> {
    // all permutations if n! <= limit, else `limit` pseudo-random ones derived from salt (identity first)
    let fact: usize = (1..=n).product();
    let mut out = Vec::new();
    if fact <= limit {
        let mut p: Vec<usize> = (0..n).collect();
        // Heap's algorithm
        fn heap(k: usize, p: &mut Vec<usize>, out: &mut Vec<Vec<usize>>) {
            if k == 1 {
                out.push(p.clone());
                return;
            }
            for i in 0..k {
                heap(k - 1, p, out);
                if k % 2 == 0 {
                    p.swap(i, k - 1);
                } else {
                    p.swap(0, k - 1);
                }
            }
        }
        heap(n, &mut p, &mut out);
        out.sort();
    } else {
        out.push((0..n).collect());
        let mut s = salt | 1;
        while out.len() < limit {
            let mut p: Vec<usize> = (0..n).collect();
            for i in (1..n).rev() {
                s ^= s << 13;
                s ^= s >> 7;
                s ^= s << 17;
                p.swap(i, (s % (i as u64 + 1)) as usize);
            }
            out.push(p);
        }
    }
    out
}

fn perm_sign(p: &[usize]) -> i32 {
    let mut odd = false;
    for i in 0..p.len() {
        for j in i + 1..p.len() {
            if p[i] > p[j] {
                odd = !odd;
            }
        }
    }
    if odd {
        -1
    } else {
        1
    }
}

struct Out<'a> {
    log: &'a mut CaseLog,
    case_desc: String,
}

impl Out<'_> {
    fn bad(&mut self, kind: &str, site: &str, msg: String) {
        self.log.violate(Violation::new(ID, kind, site, format!("{msg}; input {}", self.case_desc)));
    }
}

fn run_dim<const D: usize>(case: &Case, log: &mut CaseLog) {
    let pts = &case.pts;
    if pts.len() != D + 2 || pts.iter().any(|p| p.len() != D || p.iter().any(|x| !x.is_finite())) {
        return;
    }
    let sp = ScaledPoints::new(pts);
    let base_idx: Vec<usize> = (0..=D).collect();
    let q = D + 1;
    let exact_orient = sp.orient(&base_idx);
    let exact_in = sp.insphere(&base_idx, q); // None when flat
    let mut nontrivial = exact_orient == 0 || exact_in == Some(0);
    let mut out = Out { log, case_desc: format!("{:?}", pts) };

    let presets: [(&str, RobustPredicateConfig<f64>, f64); 4] = [
        ("default", RobustPredicateConfig::default(), 1e-15),
        ("general", config_presets::general_triangulation(), 1e-15),
        ("high_precision", config_presets::high_precision(), 1e-15 / 100.0),
        ("degenerate_robust", config_presets::degenerate_robust(), 1e-15 * 100.0),
    ];

    let limit = if IDENTITY_ONLY.with(|f| f.get()) { 1 } else if D <= 3 { 24 } else { (case.perms as usize).clamp(1, 24) };
    let perms = permutations(D + 1, limit, hash_of(&format!("{:?}", pts)));
    let mut strict_in_answers: Vec<(String, i32)> = Vec::new();
    let mut strict_or_answers: Vec<(String, i32)> = Vec::new(); // normalised by permutation parity
    let mut counts: (u64, u64, u64) = (0, 0, 0);
    let mut counts_in: (u64, u64, u64) = (0, 0, 0);

    for p in &perms {
        let simplex: Vec<Vec<f64>> = p.iter().map(|&i| pts[i].clone()).collect();
        let lib_simplex: Vec<Point<f64, D>> = simplex.iter().map(|c| Point::new(<[f64; D]>::try_from(c.as_slice()).unwrap())).collect();
        let lib_q: Point<f64, D> = Point::new(<[f64; D]>::try_from(pts[q].as_slice()).unwrap());
        let psign = perm_sign(p);
        let truth_or = exact_orient * psign;
        let om = orientation_matrix(&simplex);

        // ---------- orientation ----------
        let b_fast = analyze(&om, 1e-15);
        if b_fast.det.sign != truth_or {
            out.bad("oracle_inconsistent", "orientation_matrix", format!("exact matrix det sign {} vs geometric {}", b_fast.det.sign, truth_or));
            return;
        }
        if !matches!(b_fast.decision, Decision::Sign(_)) && b_fast.det.sign != 0 {
            nontrivial = true;
        } else if b_fast.det.sign != 0 && b_fast.det.abs_approx() < 1024.0 * (b_fast.tol + b_fast.bound) {
            nontrivial = true;
        }
        let mut check_or = |name: &str, got: Result<i32, String>, dec: Decision, out: &mut Out| {
            match dec {
                Decision::Sign(_) => { out.log.evals += 1; counts.0 += 1; }
                Decision::Zero => { out.log.evals += 1; counts.1 += 1; }
                Decision::InBand => { counts.2 += 1; }
            }
            match (dec, got) {
                (Decision::Sign(s), Ok(g)) => {
                    if g != s {
                        out.bad("wrong_sign", name, format!("orientation {name} returned {g}, exact sign {s} (perm {:?})", p));
                    }
                    if g != 0 {
                        strict_or_answers.push((name.to_string(), g * psign));
                    }
                }
                (Decision::Zero, Ok(g)) => {
                    if g != 0 {
                        out.bad("nonzero_on_exact_zero", name, format!("orientation {name} returned {g} on an exactly degenerate simplex with rounding bound below tolerance (perm {:?})", p));
                    }
                }
                (Decision::Sign(_) | Decision::Zero, Err(e)) => {
                    out.bad("error_on_decidable", name, format!("orientation {name} returned Err({e}) on decidable input (perm {:?})", p));
                }
                (Decision::InBand, _) => {}
            }
        };
        check_or("simplex_orientation", simplex_orientation(&lib_simplex).map(ori).map_err(|e| e.to_string()), b_fast.decision, &mut out);
        check_or("FastKernel::orientation", Kernel::<D>::orientation(&FastKernel::<f64>::new(), &lib_simplex).map_err(|e| e.to_string()), b_fast.decision, &mut out);
        for (pname, cfg, base) in &presets {
            let b = if *base == 1e-15 { b_fast.clone() } else { analyze(&om, *base) };
            check_or(&format!("robust_orientation[{pname}]"), robust_orientation(&lib_simplex, cfg).map(ori).map_err(|e| e.to_string()), b.decision, &mut out);
            if *pname != "default" {
                let k = RobustKernel::<f64>::with_config(cfg.clone());
                check_or(&format!("RobustKernel[{pname}]::orientation"), Kernel::<D>::orientation(&k, &lib_simplex).map_err(|e| e.to_string()), b.decision, &mut out);
            }
        }
        check_or("RobustKernel::new::orientation", Kernel::<D>::orientation(&RobustKernel::<f64>::new(), &lib_simplex).map_err(|e| e.to_string()), b_fast.decision, &mut out);

        // ---------- in-sphere ----------
        let Some(truth_in) = exact_in else { continue };
        // orientation must itself be decidable for the normalisation
        let (im, im_exact) = insphere_matrix(&simplex, &pts[q]);
        let (lm, lm_exact) = lifted_matrix(&simplex, &pts[q]);
        let q_is_vertex = simplex.iter().any(|s| s == &pts[q]);
        let mut check_in = |name: &str, got: Result<i32, String>, dec: Decision, odec: Decision, exact_entries: bool, out: &mut Out| {
            if !exact_entries {
                counts_in.2 += 1;
                return;
            }
            let Decision::Sign(_) = odec else { counts_in.2 += 1; return };
            match dec {
                Decision::Sign(_) => { out.log.evals += 1; counts_in.0 += 1; }
                Decision::Zero => { out.log.evals += 1; counts_in.1 += 1; }
                Decision::InBand => { counts_in.2 += 1; }
            }
            match (dec, got) {
                (Decision::Sign(_), Ok(g)) => {
                    if q_is_vertex {
                        // documented short-circuit: a simplex vertex is BOUNDARY
                        return;
                    }
                    if g != truth_in {
                        out.bad("wrong_sign", name, format!("in-sphere {name} returned {g}, exact {truth_in} (perm {:?})", p));
                    }
                    if g != 0 {
                        strict_in_answers.push((name.to_string(), g));
                    }
                }
                (Decision::Zero, Ok(g)) => {
                    if g != 0 {
                        out.bad("nonzero_on_exact_zero", name, format!("in-sphere {name} returned {g} on an exactly cospherical configuration with rounding bound below tolerance (perm {:?})", p));
                    }
                }
                (Decision::Sign(_) | Decision::Zero, Err(e)) => {
                    out.bad("error_on_decidable", name, format!("in-sphere {name} returned Err({e}) on decidable input (perm {:?})", p));
                }
                (Decision::InBand, _) => {}
            }
        };
        let bi = analyze(&im, 1e-15);
        let bl = analyze(&lm, 1e-15);
        if im_exact && bi.det.sign * b_fast.det.sign != truth_in {
            out.bad("oracle_inconsistent", "insphere_matrix", format!("exact matrix sign {} vs geometric {}", bi.det.sign * b_fast.det.sign, truth_in));
            return;
        }
        if bi.det.sign != 0 && bi.det.abs_approx() < 1024.0 * (bi.tol + bi.bound) {
            nontrivial = true;
        }
        check_in("insphere", insphere(&lib_simplex, lib_q).map(ins).map_err(|e| e.to_string()), bi.decision, b_fast.decision, im_exact, &mut out);
        check_in("FastKernel::in_sphere", Kernel::<D>::in_sphere(&FastKernel::<f64>::new(), &lib_simplex, &lib_q).map_err(|e| e.to_string()), bi.decision, b_fast.decision, im_exact, &mut out);
        check_in("insphere_lifted", insphere_lifted(&lib_simplex, lib_q).map(ins).map_err(|e| e.to_string()), bl.decision, b_fast.decision, lm_exact, &mut out);
        for (pname, cfg, base) in &presets {
            let (bo, bi2) = if *base == 1e-15 { (b_fast.clone(), bi.clone()) } else { (analyze(&om, *base), analyze(&im, *base)) };
            check_in(&format!("robust_insphere[{pname}]"), robust_insphere(&lib_simplex, &lib_q, cfg).map(ins).map_err(|e| e.to_string()), bi2.decision, bo.decision, im_exact, &mut out);
            if *pname != "default" {
                let k = RobustKernel::<f64>::with_config(cfg.clone());
                check_in(&format!("RobustKernel[{pname}]::in_sphere"), Kernel::<D>::in_sphere(&k, &lib_simplex, &lib_q).map_err(|e| e.to_string()), bi2.decision, bo.decision, im_exact, &mut out);
            }
        }
        check_in("RobustKernel::new::in_sphere", Kernel::<D>::in_sphere(&RobustKernel::<f64>::new(), &lib_simplex, &lib_q).map_err(|e| e.to_string()), bi.decision, b_fast.decision, im_exact, &mut out);
        // insphere_distance: held only to the cross-check on decidable input
        if im_exact && lm_exact && matches!(bi.decision, Decision::Sign(_)) && matches!(bl.decision, Decision::Sign(_)) && matches!(b_fast.decision, Decision::Sign(_)) && !q_is_vertex {
            out.log.evals += 1;
            if let Ok(g) = insphere_distance(&lib_simplex, lib_q).map(ins) {
                if g != 0 {
                    strict_in_answers.push(("insphere_distance".to_string(), g));
                }
            }
        }
    }
    // cross-checks: no opposite strict answers on decidable input
    if let (Some(a), Some(b)) = (strict_in_answers.iter().find(|x| x.1 > 0), strict_in_answers.iter().find(|x| x.1 < 0)) {
        out.bad("opposite_strict_answers", "in_sphere", format!("{} says INSIDE while {} says OUTSIDE", a.0, b.0));
    }
    if let (Some(a), Some(b)) = (strict_or_answers.iter().find(|x| x.1 > 0), strict_or_answers.iter().find(|x| x.1 < 0)) {
        out.bad("opposite_strict_answers", "orientation", format!("{} and {} disagree after permutation-parity normalisation", a.0, b.0));
    }
    out.log.class(format!("D{D}"));
    if counts.0 + counts_in.0 > 0 { out.log.class("has_decided_sign"); }
    if counts.1 + counts_in.1 > 0 { out.log.class("has_decided_zero"); }
    if counts.2 + counts_in.2 > 0 { out.log.class("has_in_band_call"); }
    out.log.class(match (exact_orient, exact_in) {
        (0, _) => "flat_simplex",
        (_, Some(0)) => "cospherical",
        _ => "generic",
    });
    if nontrivial {
        out.log.nontrivial_hash(hash_of(&format!("{:?}", pts)));
    }
}

pub fn exec(case: &Case, log: &mut CaseLog) {
    match case.dim {
        1 => run_dim::<1>(case, log),
        2 => run_dim::<2>(case, log),
        3 => run_dim::<3>(case, log),
        4 => run_dim::<4>(case, log),
        5 => run_dim::<5>(case, log),
        _ => {}
    }
}

pub fn tuple_strategy(dim: usize) -> BoxedStrategy<Case> {
    // families: small integers, dyadic, translated, exactly degenerate constructions
    let n = dim + 2;
    (0u8..6, proptest::collection::vec(proptest::collection::vec(-1024i32..=1024, dim), n), 0u32..=20, any::<[u8; 4]>(), 1u8..=24)
        .prop_map(move |(fam, raw, shift, aux, perms)| {
            let mut pts: Vec<Vec<f64>> = match fam {
                0 => raw.iter().map(|r| r.iter().map(|&v| (v % 9) as f64).collect()).collect(),
                1 => raw.iter().map(|r| r.iter().map(|&v| v as f64).collect()).collect(),
                2 => raw.iter().map(|r| r.iter().map(|&v| v as f64 / 64.0).collect()).collect(),
                3 => {
                    // cospherical: signed permutations of (2,1,0..) about an integer centre; query too
                    raw.iter()
                        .map(|r| {
                            let mut idx: Vec<usize> = (0..dim).collect();
                            idx.sort_by_key(|&i| (r[i], i));
                            (0..dim)
                                .map(|j| {
                                    let b = match idx[j] {
                                        0 => 2,
                                        1 => 1,
                                        _ => 0,
                                    };
                                    (if r[j] & 1 == 0 { b } else { -b }) as f64
                                })
                                .collect()
                        })
                        .collect()
                }
                4 => {
                    // flat: last simplex vertex is an integer affine combination of the others
                    let mut p: Vec<Vec<f64>> = raw.iter().map(|r| r.iter().map(|&v| (v % 17) as f64).collect()).collect();
                    let w: Vec<i32> = (0..dim).map(|i| (aux[i % 4] as i32 % 5) - 2).collect();
                    let s: i32 = w.iter().sum();
                    let mut last = vec![0.0; dim];
                    for j in 0..dim {
                        let mut acc = 0.0;
                        for i in 0..dim {
                            acc += w[i] as f64 * p[i][j];
                        }
                        // weights must sum to 1: add (1-s) * p[0]
                        acc += (1 - s) as f64 * p[0][j];
                        last[j] = acc;
                    }
                    p[dim] = last;
                    p
                }
                _ => raw.iter().map(|r| r.iter().map(|&v| (v % 33) as f64 / 8.0).collect()).collect(),
            };
            // a quarter of the tuples are scaled down by 2^-k, k in 4..=31 (exact): small-scale input, where
            // an absolute tolerance floor matters (|det| ~ h^D against the documented 1e-15 + 1e-12 * norm)
            if aux[2] % 4 == 0 {
                let t = 2f64.powi(-((aux[1] % 28) as i32 + 4));
                for p in pts.iter_mut() {
                    for c in p.iter_mut() {
                        *c *= t;
                    }
                }
            } else if shift > 0 && aux[3] % 2 == 0 {
                let t = 2f64.powi(shift as i32);
                for p in pts.iter_mut() {
                    for c in p.iter_mut() {
                        *c += t;
                    }
                }
            }
            Case { dim, pts, perms }
        })
        .boxed()
}

fn exhaustive(ctx: &mut Ctx, dim: usize, side: i32, label: &str) {
    // all ordered (D+2)-tuples of grid points, split across shards by tuple index
    let npts = (side as usize).pow(dim as u32);
    let grid: Vec<Vec<f64>> = (0..npts)
        .map(|mut i| {
            (0..dim)
                .map(|_| {
                    let c = (i % side as usize) as f64;
                    i /= side as usize;
                    c
                })
                .collect()
        })
        .collect();
    let total = npts.pow((dim + 2) as u32);
    let mut idx = ctx.shard;
    let step = ctx.nshards.max(1);
    while idx < total {
        let mut t = idx;
        let mut pts = Vec::with_capacity(dim + 2);
        for _ in 0..dim + 2 {
            pts.push(grid[t % npts].clone());
            t /= npts;
        }
        // only the identity order here: every ordered tuple is enumerated anyway
        let case = Case { dim, pts, perms: 1 };
        ctx.run_one(label, &case, &|c, l| exec_identity(c, l));
        idx += step;
    }
}

fn exec_identity(case: &Case, log: &mut CaseLog) {
    // same as exec but D<=3 would try all permutations; the exhaustive enumeration already covers
    // every ordering, so restrict to the identity by routing through dims with perms=1
    match case.dim {
        2 => run_dim_identity::<2>(case, log),
        3 => run_dim_identity::<3>(case, log),
        _ => exec(case, log),
    }
}

fn run_dim_identity<const D: usize>(case: &Case, log: &mut CaseLog) {
    // temporarily emulate D>3 behaviour (single permutation)
    IDENTITY_ONLY.with(|f| f.set(true));
    run_dim_maybe_identity::<D>(case, log);
    IDENTITY_ONLY.with(|f| f.set(false));
}

thread_local! {
    static IDENTITY_ONLY: std::cell::Cell<bool> = const { std::cell::Cell::new(false) };
}

fn run_dim_maybe_identity<const D: usize>(case: &Case, log: &mut CaseLog) {
    run_dim::<D>(case, log)
}

pub fn run_shard(ctx: &mut Ctx) {
    // exhaustive tiny grids
    exhaustive(ctx, 2, 3, "exhaustive_2d_grid3"); // 9^4 = 6561 ordered tuples
    if ctx.tier == Tier::Thorough {
        exhaustive(ctx, 3, 2, "exhaustive_3d_grid2"); // 8^5 = 32768
    } else {
        // quick: every 4th tuple of the 3D unit cube enumeration (still > 8000 ordered tuples)
        let save = (ctx.shard, ctx.nshards);
        ctx.nshards = save.1 * 4;
        ctx.shard = save.0 * 4 + (ctx.seed % 4) as usize;
        exhaustive(ctx, 3, 2, "enumerated_3d_grid2_quarter");
        ctx.shard = save.0;
        ctx.nshards = save.1;
    }
    for dim in 2..=5usize {
        let total = match (ctx.tier, dim) {
            (Tier::Quick, 2) => 3000,
            (Tier::Quick, 3) => 3000,
            (Tier::Quick, 4) => 2400,
            (Tier::Quick, _) => 1600,
            (Tier::Thorough, 2) => 120_000,
            (Tier::Thorough, 3) => 120_000,
            (Tier::Thorough, 4) => 60_000,
            (Tier::Thorough, _) => 30_000,
        };
        let n = ctx.share(total);
        ctx.run_cases(&format!("random_d{dim}"), n, tuple_strategy(dim), &|c, l| exec(c, l));
    }
}

pub fn replay(_label: &str, case: &Value, ctx: &mut Ctx) -> Option<Violation> {
    let c: Case = serde_json::from_value(case.clone()).ok()?;
    ctx.run_one("replay", &c, &|c, l| exec(c, l))
}

pub fn meta() -> super::Meta {
    super::Meta {
        id: ID,
        level: "exploration",
        rule: "cases = (D+1)-simplex + query point: every ordered tuple of the {0,1,2}^2 grid (exhaustive) and of the {0,1}^3 cube (exhaustive in thorough, a seed-chosen quarter in quick), plus proptest-generated integer/dyadic/cospherical/flat/translated tuples for D=2..5 (a quarter of them scaled down by 2^-4..2^-31), each under all (D<=3) or up to 24 vertex permutations; an evaluation = one predicate call compared with the exact sign when the determinant is outside tol+rounding bound; non-trivial = exact orientation or in-sphere determinant is 0, or |det| < 1024*(tol+bound); distinct by coordinate tuple",
        assumptions: &[
            "tolerance band = base_tol + 1e-12*max row sum (geometry/matrix.rs::adaptive_tolerance); rounding bound = 2*gamma_n*sum|cof_ij|(|L||U|)_ij from a mirrored GEPP, see DESIGN 2.1",
            "insphere_distance is held only to the no-opposite-strict-answers cross-check",
            "no demand on in-sphere answers when the simplex itself is flat or in band",
        ],
        exhaustive: false,
        max_shards: 8,
    }
}
