//! C13 — serialisation round trip reproduces the same triangulation; inconsistent input is rejected.

use crate::dispatch_d;
use crate::driver::ctx::{hash_of, CaseLog, Ctx, Tier, Violation};
use crate::gen::history::{op_strategy, start_strategy, start_world, Op, OpMix, Outcome, Start};
use crate::gen::points::uuid_for;
use crate::gen::world::{guarantee_of, mk_vertex};
use crate::oracle::fingerprint::{diff, fingerprint};
use crate::oracle::levels::{check, Opts};
use crate::oracle::snap::Snap;
use delaunay::core::delaunay_triangulation::DelaunayTriangulation;
use delaunay::core::triangulation_data_structure::Tds;
use delaunay::geometry::kernel::FastKernel;
use proptest::prelude::*;
use serde::{Deserialize, Serialize};
use serde_json::{json, Value};

pub const ID: &str = "C13";

#[derive(Debug, Clone, Serialize, Deserialize)]
pub struct Case {
    pub dim: usize,
    pub salt: u64,
    pub start: Start,
    pub ops: Vec<Op>,
    /// cell data to plant (selector, value)
    pub cell_data: Vec<(u16, i32)>,
    /// follow-up script after the round trip: inserts (quarter-integer grid) and one removal selector
    pub follow_inserts: Vec<Vec<i16>>,
    pub follow_remove: u16,
    /// which corruption families to enumerate on this document
    pub corrupt: bool,
    /// (start point selector, axis, index into TINY): coordinates replaced by signed zeros, subnormals and
    /// the smallest normal numbers before construction (geometrically all "0", textually not)
    #[serde(default)]
    pub tiny: Vec<(u16, u8, u8)>,
}

/// Values that are zero for every predicate but exercise the float formatting / parsing paths.
pub const TINY: [f64; 10] = [-0.0, 5e-324, -5e-324, f64::MIN_POSITIVE / 4.0, -f64::MIN_POSITIVE / 4.0, 2.225073858507201e-308, f64::MIN_POSITIVE, -f64::MIN_POSITIVE, 1.0e-300, 4.450147717014403e-308];

type K = FastKernel<f64>;
type TdsD<const D: usize> = Tds<f64, i32, i32, D>;
type DtD<const D: usize> = DelaunayTriangulation<K, i32, i32, D>;

fn fp_of<const D: usize>(t: &TdsD<D>) -> crate::oracle::fingerprint::Fingerprint {
    fingerprint(&Snap::of(t), "", true)
}

fn level_kinds(s: &Snap, g: crate::oracle::levels::Guarantee) -> Vec<String> {
    let r = check(s, Opts::euclid(g, true));
    let mut k: Vec<String> = r.issues.iter().map(|i| format!("L{}_{}", i.level, i.kind)).collect();
    k.sort();
    k.dedup();
    k
}

fn follow_up<const D: usize>(t: &TdsD<D>, case: &Case) -> Result<crate::oracle::fingerprint::Fingerprint, String> {
    let mut dt: DtD<D> = DelaunayTriangulation::from_tds(t.clone(), K::new());
    for (i, p) in case.follow_inserts.iter().enumerate() {
        let c: Vec<f64> = (0..D).map(|j| *p.get(j).unwrap_or(&0) as f64 / 4.0 + (i as f64 + 1.0) / 64.0 + (j as f64) / 128.0).collect();
        let v = mk_vertex::<i32, D>(&c, uuid_for(case.salt ^ 0xf0110, i), Some(1000 + i as i64));
        let _ = dt.insert(v);
    }
    let s = Snap::of(dt.tds());
    if !s.verts.is_empty() {
        // removal target chosen by uuid order so that both copies pick the same vertex
        let mut us: Vec<&crate::oracle::snap::SnapVertex> = s.verts.iter().collect();
        us.sort_by_key(|v| v.uuid);
        let t = us[crate::gen::world::pick(case.follow_remove, us.len())];
        let v = mk_vertex::<i32, D>(&t.coords, uuid::Uuid::from_u128(t.uuid), t.data);
        let _ = dt.remove_vertex(&v);
    }
    // cell UUIDs of cells created after loading are fresh random values: compare without them
    Ok(fingerprint(&Snap::of(dt.tds()), "", false))
}

/// All single-field corruptions of a serialized Tds document.
fn corruptions(doc: &Value, salt: u64) -> Vec<(String, Value)> {
    let mut out: Vec<(String, Value)> = Vec::new();
    let fresh = |i: usize| uuid_for(salt ^ 0xbad, i).to_string();
    let verts = doc["vertices"].as_array().cloned().unwrap_or_default();
    let cells = doc["cells"].as_array().cloned().unwrap_or_default();
    let live_v: Vec<usize> = (0..verts.len()).filter(|&i| !verts[i]["value"].is_null()).collect();
    let live_c: Vec<usize> = (0..cells.len()).filter(|&i| !cells[i]["value"].is_null()).collect();
    let cv: Vec<String> = doc["cell_vertices"].as_object().map(|m| m.keys().cloned().collect()).unwrap_or_default();
    let mut n = 0usize;
    let mut push = |out: &mut Vec<(String, Value)>, d: String, v: Value| {
        out.push((d, v));
    };
    for &i in live_v.iter().take(6) {
        // delete a vertex record
        let mut d = doc.clone();
        let ver = d["vertices"][i]["version"].as_u64().unwrap_or(1);
        d["vertices"][i] = json!({"value": null, "version": ver + 1});
        push(&mut out, format!("vertex slot {i} vacated"), d);
        let mut d = doc.clone();
        d["vertices"].as_array_mut().unwrap().remove(i);
        push(&mut out, format!("vertex record {i} removed from the array"), d);
        // duplicate a vertex record
        let mut d = doc.clone();
        let rec = d["vertices"][i].clone();
        d["vertices"].as_array_mut().unwrap().push(rec);
        push(&mut out, format!("vertex record {i} duplicated"), d);
        // uuid changes
        let mut d = doc.clone();
        n += 1;
        d["vertices"][i]["value"]["uuid"] = json!(fresh(n));
        push(&mut out, format!("vertex {i} uuid replaced by a fresh one"), d);
        let mut d = doc.clone();
        d["vertices"][i]["value"]["uuid"] = json!("00000000-0000-0000-0000-000000000000");
        push(&mut out, format!("vertex {i} uuid nil"), d);
        if let Some(&j) = live_v.iter().find(|&&j| j != i) {
            let mut d = doc.clone();
            d["vertices"][i]["value"]["uuid"] = doc["vertices"][j]["value"]["uuid"].clone();
            push(&mut out, format!("vertex {i} given the uuid of vertex {j}"), d);
        }
        // coordinates
        for (name, val) in [("null", Value::Null), ("string", json!("1.5")), ("Infinity", json!("Infinity")), ("NaN", json!("NaN")), ("bool", json!(true))] {
            let mut d = doc.clone();
            d["vertices"][i]["value"]["point"][0] = val;
            push(&mut out, format!("vertex {i} coordinate 0 := {name}"), d);
        }
        let mut d = doc.clone();
        d["vertices"][i]["value"]["point"].as_array_mut().map(|a| a.pop());
        push(&mut out, format!("vertex {i} point with one coordinate missing"), d);
        let mut d = doc.clone();
        d["vertices"][i]["value"]["point"].as_array_mut().map(|a| a.push(json!(0.5)));
        push(&mut out, format!("vertex {i} point with an extra coordinate"), d);
        // slot version parity
        let mut d = doc.clone();
        let ver = d["vertices"][i]["version"].as_u64().unwrap_or(1);
        d["vertices"][i]["version"] = json!(ver + 1);
        push(&mut out, format!("vertex slot {i} version parity flipped (occupied slot marked vacant)"), d);
        let mut d = doc.clone();
        d["vertices"][i]["value"] = Value::Null;
        push(&mut out, format!("vertex slot {i} value null with occupied version"), d);
    }
    for &i in live_c.iter().take(6) {
        let mut d = doc.clone();
        let ver = d["cells"][i]["version"].as_u64().unwrap_or(1);
        d["cells"][i] = json!({"value": null, "version": ver + 1});
        push(&mut out, format!("cell slot {i} vacated (its cell_vertices entry kept)"), d);
        let mut d = doc.clone();
        let rec = d["cells"][i].clone();
        d["cells"].as_array_mut().unwrap().push(rec);
        push(&mut out, format!("cell record {i} duplicated"), d);
        let mut d = doc.clone();
        n += 1;
        d["cells"][i]["value"]["uuid"] = json!(fresh(n));
        push(&mut out, format!("cell {i} uuid replaced (cell_vertices key unchanged)"), d);
        let mut d = doc.clone();
        d["cells"][i]["value"]["uuid"] = json!("00000000-0000-0000-0000-000000000000");
        push(&mut out, format!("cell {i} uuid nil"), d);
        let mut d = doc.clone();
        d["cells"][i]["value"] = Value::Null;
        push(&mut out, format!("cell slot {i} value null with occupied version"), d);
    }
    for (ci, key) in cv.iter().enumerate().take(6) {
        let list = doc["cell_vertices"][key].as_array().cloned().unwrap_or_default();
        if list.is_empty() {
            continue;
        }
        let mut d = doc.clone();
        d["cell_vertices"].as_object_mut().unwrap().remove(key);
        push(&mut out, format!("cell_vertices entry {ci} deleted"), d);
        let mut d = doc.clone();
        let e = d["cell_vertices"].as_object_mut().unwrap().remove(key).unwrap();
        n += 1;
        d["cell_vertices"][fresh(n)] = e;
        push(&mut out, format!("cell_vertices key {ci} renamed to an unknown cell uuid"), d);
        let mut d = doc.clone();
        d["cell_vertices"][key].as_array_mut().unwrap().pop();
        push(&mut out, format!("cell_vertices list {ci} shortened by one"), d);
        let mut d = doc.clone();
        let first = list[0].clone();
        d["cell_vertices"][key].as_array_mut().unwrap().push(first);
        push(&mut out, format!("cell_vertices list {ci} with an extra (repeated) vertex"), d);
        let mut d = doc.clone();
        d["cell_vertices"][key][0] = list[list.len() - 1].clone();
        push(&mut out, format!("cell_vertices list {ci} with a repeated vertex (same length)"), d);
        let mut d = doc.clone();
        n += 1;
        d["cell_vertices"][key][0] = json!(fresh(n));
        push(&mut out, format!("cell_vertices list {ci} pointing to a missing vertex"), d);
        let mut d = doc.clone();
        d["cell_vertices"][key].as_array_mut().unwrap().swap(0, 1);
        push(&mut out, format!("cell_vertices list {ci} with two vertices swapped"), d);
        // another live vertex not in the cell
        if let Some(other) = live_v.iter().map(|&i| doc["vertices"][i]["value"]["uuid"].clone()).find(|u| !list.contains(u)) {
            let mut d = doc.clone();
            d["cell_vertices"][key][0] = other.clone();
            push(&mut out, format!("cell_vertices list {ci} with one vertex replaced by another live vertex"), d);
            // D+2 distinct live vertices in one cell
            let mut d = doc.clone();
            d["cell_vertices"][key].as_array_mut().unwrap().push(other.clone());
            push(&mut out, format!("cell_vertices list {ci} extended by another live vertex"), d);
            let mut d = doc.clone();
            d["cell_vertices"][key].as_array_mut().unwrap().insert(0, other);
            push(&mut out, format!("cell_vertices list {ci} with another live vertex prepended"), d);
        }
        {
            let mut d = doc.clone();
            n += 1;
            d["cell_vertices"][key].as_array_mut().unwrap().push(json!(fresh(n)));
            push(&mut out, format!("cell_vertices list {ci} extended by an unknown vertex uuid"), d);
        }
        if let Some(k2) = cv.iter().find(|k2| *k2 != key) {
            let mut d = doc.clone();
            let a = d["cell_vertices"][key].clone();
            let b = d["cell_vertices"][k2].clone();
            d["cell_vertices"][key] = b;
            d["cell_vertices"][k2] = a;
            push(&mut out, format!("cell_vertices lists {ci} and another swapped"), d);
            let mut d = doc.clone();
            d["cell_vertices"][key] = doc["cell_vertices"][k2].clone();
            push(&mut out, format!("cell_vertices list {ci} made identical to another cell's (duplicate cell)"), d);
        }
    }
    for field in ["vertices", "cells", "cell_vertices"] {
        let mut d = doc.clone();
        d.as_object_mut().unwrap().remove(field);
        push(&mut out, format!("field {field} missing"), d);
        let mut d = doc.clone();
        d[field] = json!(42);
        push(&mut out, format!("field {field} := 42"), d);
    }
    out
}

fn run<const D: usize>(case: &Case, log: &mut CaseLog) {
    log.class(format!("D{D}"));
    // 1. reach a state through the API (vertex data i32, removals leave vacated slots)
    let mut start = case.start.clone();
    for (sel, axis, t) in &case.tiny {
        if !start.points.is_empty() {
            let i = crate::gen::world::pick(*sel, start.points.len());
            start.points[i][*axis as usize % D] = TINY[*t as usize % TINY.len()];
        }
    }
    let Some(mut w) = start_world::<K, D>(&start, case.salt) else {
        log.class("start:construction_err");
        return;
    };
    let mut before = w.snap();
    let mut removed = 0usize;
    for op in &case.ops {
        let (_r, out) = w.apply(&before, op);
        if matches!(out, Outcome::SetPanicked { .. }) {
            return;
        }
        if matches!(out, Outcome::Removed { known: true, .. }) {
            removed += 1;
        }
        before = w.snap();
    }
    if before.verts.iter().any(|v| v.coords.iter().any(|c| *c != 0.0 && c.abs() < f64::MIN_POSITIVE)) {
        log.class("state_has_subnormal_coordinate");
    }
    if before.verts.iter().any(|v| v.coords.iter().any(|c| *c == 0.0 && c.is_sign_negative())) {
        log.class("state_has_negative_zero");
    }
    let g = guarantee_of(w.dt.topology_guarantee());
    // A reachable state that is itself structurally inconsistent (remove_vertex can leave such states,
    // see the C06 findings) is not a round-trip case: the property's last sentence demands that a
    // document which does not describe a consistent complex be rejected, so the two demands conflict.
    if !check(&before, Opts::structural_only()).ok_upto(2) {
        log.class("state_structurally_inconsistent(not a round-trip case)");
        return;
    }
    // 2. Tds<f64,i32,(),D> -> JSON -> Tds<f64,i32,i32,D>, plant cell data
    let text0 = match serde_json::to_string(w.dt.tds()) {
        Ok(t) => t,
        Err(e) => {
            log.violate(Violation::new(ID, "serialize_error", "to_string", format!("serialising a reachable triangulation failed: {e}")));
            return;
        }
    };
    let mut orig: TdsD<D> = match serde_json::from_str(&text0) {
        Ok(t) => t,
        Err(e) => {
            log.violate(Violation::new(ID, "roundtrip_rejected", "from_str", format!("the library's own serialisation output does not load: {e}")).fact("dim", D as u64).fact("removed", removed > 0));
            return;
        }
    };
    let ckeys: Vec<_> = orig.cell_keys().collect();
    let mut with_cell_data = false;
    for (sel, val) in &case.cell_data {
        if !ckeys.is_empty() {
            if let Some(c) = orig.get_cell_by_key_mut(ckeys[crate::gen::world::pick(*sel, ckeys.len())]) {
                c.data = Some(*val);
                with_cell_data = true;
            }
        }
    }
    // 3. the round trip under test
    log.evals += 1;
    let text = serde_json::to_string(&orig).unwrap_or_default();
    let back: TdsD<D> = match serde_json::from_str(&text) {
        Ok(t) => t,
        Err(e) => {
            log.violate(Violation::new(ID, "roundtrip_rejected", "from_str", format!("deserialising what was just serialised failed: {e}")).fact("dim", D as u64).fact("removed", removed > 0));
            return;
        }
    };
    let so = Snap::of(&orig);
    let sb = Snap::of(&back);
    let (fo, fb) = (fingerprint(&so, "", true), fingerprint(&sb, "", true));
    let mk = |kind: &str, msg: String| Violation::new(ID, kind, "roundtrip", msg).fact("dim", D as u64).fact("removed", removed > 0).fact("cell_data", with_cell_data);
    if fo != fb {
        log.violate(mk("roundtrip_differs", format!("round trip changed the triangulation: {}", diff(&fo, &fb))));
        return;
    }
    if back != orig {
        log.violate(mk("roundtrip_not_equal", "the round-tripped Tds does not compare equal (==) to the original although vertices, cells (with UUIDs and data) and neighbour relation are identical".into()));
    }
    if level_kinds(&so, g) != level_kinds(&sb, g) {
        log.violate(mk("roundtrip_levels_differ", format!("validation levels differ: {:?} vs {:?}", level_kinds(&so, g), level_kinds(&sb, g))));
    }
    if orig.validate().is_ok() != back.validate().is_ok() {
        log.violate(mk("roundtrip_levels_differ", "Tds::validate() verdict differs between original and copy".into()));
    }
    // follow-up script must behave identically (only judged on valid states)
    if level_kinds(&so, g).is_empty() {
        if let (Ok(a), Ok(b)) = (follow_up::<D>(&orig, case), follow_up::<D>(&back, case)) {
            log.evals += 1;
            if a != b {
                log.violate(mk("roundtrip_followup_differs", format!("the same insert/remove script gives different results on original and copy: {}", diff(&a, &b))));
            }
        }
    }
    // DelaunayTriangulation-level serde (FastKernel, (), ()): built from the same vertex positions
    {
        let pts = so.points();
        if pts.len() > D {
            let verts: Vec<_> = pts.iter().enumerate().map(|(i, p)| mk_vertex::<(), D>(p, uuid_for(case.salt ^ 0xd7, i), None)).collect();
            if let Ok(dt) = DelaunayTriangulation::<K, (), (), D>::new(&verts) {
                log.evals += 1;
                match serde_json::to_string(&dt).map_err(|e| e.to_string()).and_then(|t| serde_json::from_str::<DelaunayTriangulation<K, (), (), D>>(&t).map_err(|e| e.to_string())) {
                    Ok(b2) => {
                        let (a, b) = (fingerprint(&Snap::of(dt.tds()), "", true), fingerprint(&Snap::of(b2.tds()), "", true));
                        if a != b {
                            log.violate(mk("roundtrip_differs", format!("DelaunayTriangulation round trip: {}", diff(&a, &b))));
                        }
                        if b2.tds() != dt.tds() {
                            log.violate(mk("roundtrip_not_equal", "DelaunayTriangulation round trip: tds() != original tds()".into()));
                        }
                        // "remains fully usable": on the loaded DelaunayTriangulation itself a coordinate
                        // duplicate of a live vertex is still refused and every accepted insertion leaves
                        // the independent L1-L3 levels intact (the invariant of C02/C09, here on a loaded value)
                        let mut b2 = b2;
                        if let Some(v0) = Snap::of(b2.tds()).verts.first().cloned() {
                            log.evals += 1;
                            let n0 = Snap::of(b2.tds()).verts.len();
                            // 5e-11 along the first axis: decidably inside the documented 1e-10 duplicate
                            // tolerance (the exact position itself is refused by the geometry in any case)
                            let mut near = v0.coords.clone();
                            near[0] += 5e-11;
                            if (near[0] - v0.coords[0]).abs() < 9e-11 {
                                let _ = b2.insert(mk_vertex::<(), D>(&near, uuid_for(case.salt ^ 0xd8, 0), None));
                                let n1 = Snap::of(b2.tds()).verts.len();
                                if n1 != n0 {
                                    log.violate(mk("loaded_dt_accepts_duplicate", format!("after loading, inserting {near:?}, within the 1e-10 duplicate tolerance of the live vertex {:?}, changed the vertex count {n0} -> {n1}", v0.coords)));
                                }
                            }
                        }
                        for (i, p) in case.follow_inserts.iter().enumerate() {
                            let c: Vec<f64> = (0..D).map(|j| *p.get(j).unwrap_or(&0) as f64 / 4.0 + (i as f64 + 1.0) / 64.0 + (j as f64) / 128.0).collect();
                            log.evals += 1;
                            if b2.insert(mk_vertex::<(), D>(&c, uuid_for(case.salt ^ 0xd9, i), None)).is_ok() {
                                let s2 = Snap::of(b2.tds());
                                let rep = check(&s2, Opts::euclid(guarantee_of(b2.topology_guarantee()), false));
                                if let Some(first) = rep.issues.iter().find(|i| i.level <= 3) {
                                    log.violate(mk("loaded_dt_insert_breaks_levels", format!("after loading, a successful insert left L{} {}: {}", first.level, first.kind, first.detail)));
                                    break;
                                }
                            }
                        }
                    }
                    Err(e) => log.violate(mk("roundtrip_rejected", format!("DelaunayTriangulation round trip failed: {e}"))),
                }
            }
        }
    }
    if !log.violations.is_empty() {
        return;
    }
    let mut nontrivial = removed > 0 || with_cell_data;
    // 4. corruptions: Err, or the loaded value passes independent L1 and L2
    if case.corrupt && !so.verts.is_empty() && level_kinds(&so, g).iter().all(|k| !k.starts_with("L1") && !k.starts_with("L2")) {
        if so.cells.is_empty() {
            log.class("corruptions_on_cell_less_document");
        }
        let doc: Value = serde_json::from_str(&text).unwrap_or(Value::Null);
        // sanity of the corruption channel itself: the unmodified document must load through from_value
        if let Err(e) = serde_json::from_str::<TdsD<D>>(&doc.to_string()) {
            log.class("harness:identity_document_rejected");
            if std::env::var_os("DVCHECK_DEBUG").is_some() {
                eprintln!("identity document rejected: {e}");
            }
            return;
        }
        for (desc, bad) in corruptions(&doc, case.salt) {
            log.evals += 1;
            let loaded: Result<TdsD<D>, _> = serde_json::from_str(&bad.to_string());
            match loaded {
                Err(_) => {
                    log.class("corruption:rejected");
                }
                Ok(t) => {
                    let s = Snap::of(&t);
                    let r = check(&s, Opts::structural_only());
                    if r.ok_upto(2) {
                        log.class("corruption:loaded_consistent");
                    } else {
                        nontrivial = true;
                        let first = r.issues.iter().find(|i| i.level <= 2).unwrap();
                        log.violate(
                            Violation::new(ID, "inconsistent_input_loaded", "from_value", format!("corruption '{desc}' was loaded (Ok) although the result is structurally inconsistent: L{} {}: {}", first.level, first.kind, first.detail))
                                .fact("dim", D as u64)
                                .fact("oracle_kind", format!("L{}_{}", first.level, first.kind))
                                .fact("lib_validate_ok", t.validate().is_ok()),
                        );
                        continue;
                    }
                }
            }
        }
        // truncated documents
        for cut in [text.len() / 3, text.len() / 2, text.len() - 2] {
            log.evals += 1;
            if let Ok(t) = serde_json::from_str::<TdsD<D>>(&text[..cut]) {
                let s = Snap::of(&t);
                if !check(&s, Opts::structural_only()).ok_upto(2) {
                    log.violate(Violation::new(ID, "inconsistent_input_loaded", "from_str", format!("document truncated at byte {cut} loaded into an inconsistent structure")));
                    return;
                }
            }
        }
        nontrivial = true;
    }
    if nontrivial {
        log.nontrivial_hash(hash_of(&serde_json::to_string(case).unwrap_or_default()));
    }
}

pub fn exec(case: &Case, log: &mut CaseLog) {
    if !(2..=5).contains(&case.dim) || case.start.points.iter().any(|p| p.len() != case.dim) {
        return;
    }
    dispatch_d!(case.dim, run, case, log)
}

pub const MIX: OpMix = OpMix { insert: 5, remove: 5, flips: 2, repair: 1, setters: 0, clone: 0, adversarial_uuid: false };

pub fn strategy(dim: usize, max_ops: usize) -> BoxedStrategy<Case> {
    let nmax = match dim {
        2 => 12,
        3 => 10,
        4 => 8,
        _ => 7,
    };
    (
        any::<u64>(),
        start_strategy(dim, nmax, 2),
        proptest::collection::vec(op_strategy(dim, MIX), 0..=max_ops),
        proptest::collection::vec((any::<u16>(), -50i32..50), 0..3),
        proptest::collection::vec(proptest::collection::vec(-40i16..=40, dim), 0..3),
        any::<u16>(),
        prop_oneof![2 => Just(true), 1 => Just(false)],
        prop_oneof![2 => Just(Vec::new()), 1 => proptest::collection::vec((any::<u16>(), 0u8..5, 0u8..10), 1..4)],
    )
        .prop_map(move |(salt, start, ops, cell_data, follow_inserts, follow_remove, corrupt, tiny)| Case { dim, salt, start, ops, cell_data, follow_inserts, follow_remove, corrupt, tiny })
        .boxed()
}


/// A raw document offered to the deserialiser (coverage-guided target / its replays): first byte
/// '2'..'4' selects the dimension, the rest is the JSON text.  Rejected, or loaded into a structure
/// that passes the independent Level 1/2 checks and round-trips once more unchanged.
#[derive(Debug, Clone, Serialize, Deserialize)]
pub struct RawDoc {
    pub hex: String,
}

fn judge_raw<const D: usize>(txt: &str, log: &mut CaseLog) {
    log.evals += 1;
    let Ok(tds) = serde_json::from_str::<TdsD<D>>(txt) else {
        log.class("raw:rejected");
        return;
    };
    log.class("raw:loaded");
    let s = Snap::of(&tds);
    let rep = check(&s, Opts::structural_only());
    if let Some(first) = rep.issues.iter().find(|i| i.level <= 2) {
        log.violate(
            Violation::new(ID, "inconsistent_input_loaded", "from_value", format!("a raw document was loaded (Ok) although the result is structurally inconsistent: L{} {}: {}", first.level, first.kind, first.detail))
                .fact("dim", D as u64)
                .fact("oracle_kind", format!("L{}_{}", first.level, first.kind))
                .fact("lib_validate_ok", tds.validate().is_ok()),
        );
        return;
    }
    let Ok(again) = serde_json::to_string(&tds) else { return };
    match serde_json::from_str::<TdsD<D>>(&again) {
        Ok(t2) => {
            let (a, b) = (fingerprint(&s, "", true), fingerprint(&Snap::of(&t2), "", true));
            if a != b {
                log.violate(Violation::new(ID, "round_trip_differs", "raw_document", format!("a loaded raw document does not survive a second round trip: {}", diff(&a, &b))).fact("dim", D as u64));
            }
        }
        Err(e) => log.violate(Violation::new(ID, "reserialised_document_rejected", "raw_document", format!("a loaded raw document is rejected after being serialised again: {e}")).fact("dim", D as u64)),
    }
}

pub fn exec_raw(doc: &RawDoc, log: &mut CaseLog) {
    let Some(data) = (0..doc.hex.len() / 2).map(|i| u8::from_str_radix(&doc.hex[2 * i..2 * i + 2], 16).ok()).collect::<Option<Vec<u8>>>() else { return };
    if data.len() < 2 {
        return;
    }
    let Ok(txt) = std::str::from_utf8(&data[1..]) else { return };
    match data[0] {
        b'2' => judge_raw::<2>(txt, log),
        b'3' => judge_raw::<3>(txt, log),
        b'4' => judge_raw::<4>(txt, log),
        _ => {}
    }
}

pub fn raw_doc(data: &[u8]) -> RawDoc {
    RawDoc { hex: data.iter().map(|b| format!("{b:02x}")).collect() }
}

/// Seed corpus for the coverage-guided deserialisation target (fuzz/fuzz_targets/c13_deserialize.rs):
/// documents of library-built triangulations, each prefixed by one byte '0' + D.
pub fn emit_corpus(dir: &str) -> i32 {
    fn docs<const D: usize>(dir: &std::path::Path) -> usize {
        let mut n = 0;
        for (k, npts) in [(0usize, D + 1), (1, D + 3), (2, D + 5)] {
            // small dyadic pseudo-random coordinates (fixed LCG: the corpus is the same on every run)
            let mut x: u64 = 0x9E37_79B9_7F4A_7C15u64.wrapping_mul(D as u64 * 31 + k as u64 + 1);
            let mut next = || {
                x = x.wrapping_mul(6364136223846793005).wrapping_add(1442695040888963407);
                ((x >> 40) % 257) as f64 / 16.0 - 8.0
            };
            let verts: Vec<_> = (0..npts).map(|i| mk_vertex::<i32, D>(&(0..D).map(|_| next()).collect::<Vec<f64>>(), uuid_for(77 + k as u64, i), Some(i as i64))).collect();
            let Ok(mut dt) = DtD::<D>::with_topology_guarantee(&K::new(), &verts, delaunay::core::triangulation::TopologyGuarantee::PLManifold) else { continue };
            if k == 2 {
                let first = dt.vertices().next().map(|(_, b)| *b);
                if let Some(v) = first {
                    let _ = dt.remove_vertex(&v);
                }
            }
            if let Ok(txt) = serde_json::to_string(dt.tds()) {
                let mut bytes = vec![b'0' + D as u8];
                bytes.extend_from_slice(txt.as_bytes());
                if std::fs::write(dir.join(format!("d{D}-{k}.json")), bytes).is_ok() {
                    n += 1;
                }
            }
        }
        n
    }
    let dir = std::path::Path::new(dir);
    let _ = std::fs::create_dir_all(dir);
    let n = docs::<2>(dir) + docs::<3>(dir) + docs::<4>(dir);
    println!("{n} corpus documents written to {}", dir.display());
    if n > 0 { 0 } else { 2 }
}

/// Vertex-level round trip over arbitrary finite bit patterns (every exponent incl. subnormals, both signs).
#[derive(Debug, Clone, Serialize, Deserialize)]
pub struct VertexCase {
    pub dim: usize,
    pub bits: Vec<u64>,
    pub salt: u64,
    pub data: Option<i32>,
}

fn vertex_rt<const D: usize>(c: &VertexCase, log: &mut CaseLog) {
    use delaunay::core::vertex::Vertex;
    let coords: Vec<f64> = c.bits.iter().map(|b| f64::from_bits(*b)).collect();
    if coords.len() != D || coords.iter().any(|x| !x.is_finite()) {
        return;
    }
    log.evals += 1;
    let v = mk_vertex::<i32, D>(&coords, uuid_for(c.salt, 0), c.data.map(i64::from));
    let text = match serde_json::to_string(&v) {
        Ok(t) => t,
        Err(e) => {
            log.violate(Violation::new(ID, "serialize_error", "vertex", format!("serialising a finite vertex failed: {e}")));
            return;
        }
    };
    match serde_json::from_str::<Vertex<f64, i32, D>>(&text) {
        Ok(b) => {
            let bc: Vec<u64> = b.point().coords().iter().map(|x| x.to_bits()).collect();
            if bc != c.bits || b.uuid() != v.uuid() || b.data != v.data {
                log.violate(Violation::new(ID, "roundtrip_differs", "vertex", format!("vertex round trip changed the vertex: coordinate bits {:x?} -> {:x?}, uuid {} -> {}, data {:?} -> {:?} (document {text})", c.bits, bc, v.uuid(), b.uuid(), v.data, b.data)).fact("dim", D as u64));
            }
        }
        Err(e) => log.violate(Violation::new(ID, "roundtrip_rejected", "vertex", format!("a finite vertex with coordinates {coords:?} serialises to {text}, which is rejected on load: {e}")).fact("dim", D as u64)),
    }
    if coords.iter().any(|x| *x != 0.0 && x.abs() < f64::MIN_POSITIVE) {
        log.class("vertex:subnormal");
    }
    log.nontrivial_hash(hash_of(&format!("{:?}", c.bits)));
}

pub fn exec_vertex(c: &VertexCase, log: &mut CaseLog) {
    match c.dim {
        2 => vertex_rt::<2>(c, log),
        3 => vertex_rt::<3>(c, log),
        4 => vertex_rt::<4>(c, log),
        5 => vertex_rt::<5>(c, log),
        _ => {}
    }
}

pub fn vertex_strategy() -> BoxedStrategy<VertexCase> {
    // sign, biased exponent 0..=2046 (0 = zero / subnormal), mantissa: uniform over the float classes that matter
    let coord = (any::<bool>(), prop_oneof![2 => Just(0u64), 1 => Just(1u64), 1 => Just(2046u64), 6 => 0u64..=2046], prop_oneof![1 => Just(0u64), 1 => Just(1u64), 1 => Just((1u64 << 52) - 1), 6 => 0u64..(1u64 << 52)])
        .prop_map(|(s, e, m)| ((s as u64) << 63) | (e << 52) | m);
    (2usize..=5).prop_flat_map(move |dim| (proptest::collection::vec(coord.clone(), dim), any::<u64>(), proptest::option::of(any::<i32>())).prop_map(move |(bits, salt, data)| VertexCase { dim, bits, salt, data })).boxed()
}

pub fn run_shard(ctx: &mut Ctx) {
    {
        let n = ctx.share(if ctx.tier == Tier::Thorough { 400_000 } else { 20_000 });
        ctx.run_cases("vertex_roundtrip", n, vertex_strategy(), &|c, l| exec_vertex(c, l));
    }
    let thorough = ctx.tier == Tier::Thorough;
    let max_ops = if thorough { 16 } else { 6 };
    for dim in 2..=5usize {
        let total = match (ctx.tier, dim) {
            (Tier::Quick, 2) => 700,
            (Tier::Quick, 3) => 500,
            (Tier::Quick, 4) => 250,
            (Tier::Quick, _) => 150,
            (Tier::Thorough, 2) => 14_000,
            (Tier::Thorough, 3) => 10_000,
            (Tier::Thorough, 4) => 5_000,
            (Tier::Thorough, _) => 3_000,
        };
        let n = ctx.share(total);
        ctx.run_cases(&format!("serde_d{dim}"), n, strategy(dim, max_ops), &|c, l| exec(c, l));
    }
}

pub fn replay(label: &str, case: &Value, ctx: &mut Ctx) -> Option<Violation> {
    if label == "vertex_roundtrip" {
        let c: VertexCase = serde_json::from_value(case.clone()).ok()?;
        return ctx.run_one("replay", &c, &|c, l| exec_vertex(c, l));
    }
    if label == "raw_document" {
        let c: RawDoc = serde_json::from_value(case.clone()).ok()?;
        return ctx.run_one("replay", &c, &|c, l| exec_raw(c, l));
    }
    let c: Case = serde_json::from_value(case.clone()).ok()?;
    ctx.run_one("replay", &c, &|c, l| exec(c, l))
}

pub fn meta() -> super::Meta {
    super::Meta {
        id: ID,
        level: "fault_enumeration",
        rule: "case = a triangulation reached through the API (batch construction, then generated insertions, removals leaving vacated slot-map slots, flips, repair) with i32 vertex data and planted i32 cell data; (1) round trip through serde_json at the Tds level (the documented path for non-unit data) and at the DelaunayTriangulation<FastKernel,(),()> level: identical fingerprint incl. cell UUIDs and data, ==, identical validation levels, identical behaviour under a follow-up insert/remove script; on the loaded DelaunayTriangulation itself a point 5e-11 from a live vertex must still be refused and every accepted insertion must keep the independent L1-L3 levels; a third of the cases replace start coordinates by -0.0, subnormals and the smallest normal numbers (classes state_has_subnormal_coordinate / state_has_negative_zero count the documents that really contain them); (1b) Vertex-level round trip over arbitrary finite bit patterns (all exponents incl. 0 = subnormal and 2046, boundary mantissas): coordinate bits, UUID and data identical; (2) fault enumeration over the JSON document: for up to 6 vertices, 6 cells and 6 cell_vertices entries every single-field corruption (vacate / remove / duplicate records, replace / nil / duplicate UUIDs, coordinate := null, string, Infinity, NaN, bool, wrong arity, slot version parity, null value, delete / rename / shorten / extend (by a repeated, another live or an unknown vertex) / repeat / dangling / permuted / swapped / duplicated cell_vertices lists, missing or mistyped top-level fields, truncated text): the load must fail or the loaded structure must pass the independent L1 and L2 checks; evaluations = round trips + corrupted documents loaded; non-trivial = state with a removal or cell data, or a case whose corruptions were enumerated; distinct by the whole case",
        assumptions: &[
            "a corrupted document that happens to describe another consistent complex (e.g. a changed but unique UUID) may load",
            "cell UUIDs of cells created after loading are random, so the follow-up comparison ignores cell UUIDs",
        ],
        exhaustive: false,
        max_shards: 8,
    }
}
