//! C18 — simplex measures match exact geometry.

use crate::driver::ctx::{hash_of, CaseLog, Ctx, Violation};
use crate::exact::bigint::Rat;
use crate::exact::geom::{circumsphere, factorial, gram_det, ScaledPoints};
use crate::gen::world::mk_point;
use delaunay::core::delaunay_triangulation::DelaunayTriangulation;
use delaunay::core::vertex::Vertex;
use delaunay::geometry::kernel::FastKernel;
use delaunay::geometry::point::Point;
use delaunay::geometry::quality::{normalized_volume, radius_ratio};
use delaunay::geometry::util::{circumcenter, circumradius, facet_measure, inradius, simplex_volume};
use proptest::prelude::*;
use serde::{Deserialize, Serialize};
use serde_json::Value;

pub const ID: &str = "C18";
const REL: f64 = 1e-9;

#[derive(Debug, Clone, Serialize, Deserialize)]
pub struct Case {
    pub dim: usize,
    pub pts: Vec<Vec<f64>>,
    pub shift: Vec<f64>,
    pub scale_pow: i32,
    pub perm_salt: u64,
}

fn bad(log: &mut CaseLog, kind: &str, site: &str, msg: String) {
    log.violate(Violation::new(ID, kind, site, msg));
}

fn rel_err(got: f64, want: f64) -> f64 {
    if want == 0.0 {
        got.abs()
    } else {
        ((got - want) / want).abs()
    }
}

struct Exact {
    vol: f64,
    facets: Vec<f64>,
    centre: Vec<f64>,
    r: f64,
    inr: f64,
    max_edge: f64,
    avg_edge: f64,
}

fn exact_measures(pts: &[Vec<f64>]) -> Option<Exact> {
    let d = pts[0].len();
    let sp = ScaledPoints::new(pts);
    let idx: Vec<usize> = (0..=d).collect();
    let vol2 = gram_det(&sp, &idx);
    if vol2.signum() == 0 {
        return None;
    }
    let vol = vol2.to_f64().sqrt() / factorial(d);
    let mut facets = Vec::new();
    for skip in 0..=d {
        let f: Vec<usize> = idx.iter().copied().filter(|&i| i != skip).collect();
        facets.push(gram_det(&sp, &f).to_f64().sqrt() / factorial(d - 1));
    }
    let (c, r2) = circumsphere(&sp, &idx)?;
    let mut max_edge = 0.0f64;
    let mut sum_edge = 0.0;
    let mut ne = 0.0;
    for i in 0..=d {
        for j in i + 1..=d {
            let e = sp.dist2_real(i, j).to_f64().sqrt();
            max_edge = max_edge.max(e);
            sum_edge += e;
            ne += 1.0;
        }
    }
    let inr = d as f64 * vol / facets.iter().sum::<f64>();
    Some(Exact { vol, facets, centre: c.iter().map(Rat::to_f64).collect(), r: r2.to_f64().sqrt(), inr, max_edge, avg_edge: sum_edge / ne })
}

fn lib_points<const D: usize>(pts: &[Vec<f64>]) -> Vec<Point<f64, D>> {
    pts.iter().map(|p| mk_point::<D>(p)).collect()
}

fn perms(n: usize, salt: u64, limit: usize) -> Vec<Vec<usize>> {
    let mut out = vec![(0..n).collect::<Vec<_>>()];
    let mut s = salt | 1;
    while out.len() < limit {
        let mut p: Vec<usize> = (0..n).collect();
        for i in (1..n).rev() {
            s ^= s << 13;
            s ^= s >> 7;
            s ^= s << 17;
            p.swap(i, (s % (i as u64 + 1)) as usize);
        }
        out.push(p);
    }
    out
}

fn run<const D: usize>(case: &Case, log: &mut CaseLog) {
    let pts = &case.pts;
    if pts.len() != D + 1 || pts.iter().any(|p| p.len() != D || p.iter().any(|x| !x.is_finite())) {
        return;
    }
    let desc = format!("{:?}", pts);
    log.class(format!("D{D}"));
    let lp = lib_points::<D>(pts);
    match exact_measures(pts) {
        None => {
            // exactly degenerate: every measure must be an Err, never a finite number
            log.class("degenerate");
            log.nontrivial_hash(hash_of(&(D, &desc)));
            let distinct = {
                let mut ok = true;
                for i in 0..pts.len() {
                    for j in i + 1..pts.len() {
                        if pts[i] == pts[j] {
                            ok = false;
                        }
                    }
                }
                ok
            };
            log.class(if distinct { "degenerate_flat" } else { "degenerate_repeated_point" });
            // scale of the simplex: a returned value far below scale^D * 1e-6 is rounding noise of an
            // (exactly) zero determinant, a value at or above the scale is outright garbage
            let scale = pts.iter().flatten().fold(0.0f64, |m, x| m.max(x.abs())).max(1e-300);
            let mut chk = |name: &str, r: Result<(String, f64), String>, power: i32, log: &mut CaseLog| {
                log.evals += 1;
                if let Ok((v, mag)) = r {
                    log.violate(
                        Violation::new(ID, "degenerate_not_rejected", name, format!("{name} returned Ok({v}) for the exactly degenerate simplex {desc}"))
                            .fact("dim", D as u64)
                            .fact("rounding_noise", mag.abs() < 1e-6 * scale.powi(power))
                            // coordinates of magnitude <= 8: the Gram matrix entries stay below ~1e3 and the
                            // rounding noise of its factorisation (~1e-13) below the 1e-12 pivot tolerance
                            .fact("small_coordinates", scale <= 8.0)
                            .fact("repeated_point", !distinct),
                    );
                }
            };
            chk("simplex_volume", simplex_volume(&lp).map(|v| (format!("{v:e}"), v)).map_err(|e| e.to_string()), D as i32, log);
            if D >= 2 {
                chk("inradius", inradius(&lp).map(|v| (format!("{v:e}"), v)).map_err(|e| e.to_string()), 1, log);
            }
            chk("circumcenter", circumcenter(&lp).map(|v| (format!("{:?}", v.coords()), v.coords().iter().fold(0.0f64, |m, x| m.max(x.abs())))).map_err(|e| e.to_string()), 1, log);
            chk("circumradius", circumradius(&lp).map(|v| (format!("{v:e}"), v)).map_err(|e| e.to_string()), 1, log);
            return;
        }
        Some(ex) => {
            // conditioning filter: vol >= 2^-12 * max_edge^D, so "small relative error" is meaningful
            if ex.vol < 2f64.powi(-12) * ex.max_edge.powi(D as i32) {
                log.class("filtered_ill_conditioned");
                return;
            }
            // far from the origin the circumcentre itself is only representable to an ulp of its
            // coordinates; centre / circumradius (computed through the centre) get that absolute slack
            let maxabs = pts.iter().flatten().fold(0.0f64, |m, x| m.max(x.abs()));
            let rs = 16.0 * (D as f64) * maxabs * f64::EPSILON;
            if maxabs >= 65536.0 {
                log.class("far_from_origin(>=2^16)");
            }
            let obtuse = {
                // circumcentre outside the simplex <=> some barycentric sign negative; approximate via distance
                let sp = ScaledPoints::new(&{
                    let mut v = pts.clone();
                    v.push(ex.centre.clone());
                    v
                });
                let idx: Vec<usize> = (0..=D).collect();
                sp.in_closed_simplex(&idx, D + 1) == Some(false)
            };
            log.class(if obtuse { "circumcentre_outside" } else { "circumcentre_inside" });
            if obtuse || ex.vol < 2f64.powi(-6) * ex.max_edge.powi(D as i32) {
                log.nontrivial_hash(hash_of(&(D, &desc)));
            }
            let check = |name: &str, got: Result<f64, String>, want: f64, tol: f64, log: &mut CaseLog| {
                log.evals += 1;
                match got {
                    Ok(g) => {
                        if !(g.is_finite()) || rel_err(g, want) > tol {
                            log.violate(Violation::new(ID, "inaccurate", name, format!("{name} = {g:e}, exact {want:e} (rel err {:e}) for {desc}", rel_err(g, want))).fact("dim", D as u64));
                        }
                    }
                    Err(e) => log.violate(Violation::new(ID, "error_on_nondegenerate", name, format!("{name} returned Err({e}) for the well-conditioned simplex {desc}")).fact("dim", D as u64)),
                }
            };
            check("simplex_volume", simplex_volume(&lp).map_err(|e| e.to_string()), ex.vol, REL, log);
            check("circumradius", circumradius(&lp).map_err(|e| e.to_string()), ex.r, REL + rs / ex.r, log);
            if D >= 2 {
                check("inradius", inradius(&lp).map_err(|e| e.to_string()), ex.inr, REL, log);
                for skip in 0..=D {
                    let f: Vec<Point<f64, D>> = lp.iter().enumerate().filter(|(i, _)| *i != skip).map(|(_, p)| *p).collect();
                    check("facet_measure", facet_measure(&f).map_err(|e| e.to_string()), ex.facets[skip], REL, log);
                }
            }
            log.evals += 1;
            match circumcenter(&lp) {
                Ok(c) => {
                    let err: f64 = c.coords().iter().zip(&ex.centre).map(|(a, b)| (a - b) * (a - b)).sum::<f64>().sqrt();
                    if !(err <= REL * ex.r + rs) {
                        bad(log, "inaccurate", "circumcenter", format!("circumcenter {:?} vs exact {:?} (error {:e}, R {:e}) for {desc}", c.coords(), ex.centre, err, ex.r));
                    }
                }
                Err(e) => bad(log, "error_on_nondegenerate", "circumcenter", format!("Err({e}) for {desc}")),
            }
            // permutation invariance, translation invariance, scaling
            let base_vol = simplex_volume(&lp).ok();
            let base_r = circumradius(&lp).ok();
            let base_in = if D >= 2 { inradius(&lp).ok() } else { None };
            for p in perms(D + 1, case.perm_salt, if D <= 2 { 6 } else { 8 }).iter().skip(1) {
                let q: Vec<Point<f64, D>> = p.iter().map(|&i| lp[i]).collect();
                let mut cmp = |name: &str, a: Option<f64>, b: Option<f64>, log: &mut CaseLog| {
                    log.evals += 1;
                    if let (Some(a), Some(b)) = (a, b) {
                        if rel_err(b, a) > 1e-10 + if name == "circumradius" { 2.0 * rs / ex.r } else { 0.0 } {
                            bad(log, "not_permutation_invariant", name, format!("{name}: {a:e} vs {b:e} under vertex permutation {:?} of {desc}", p));
                        }
                    }
                };
                cmp("simplex_volume", base_vol, simplex_volume(&q).ok(), log);
                cmp("circumradius", base_r, circumradius(&q).ok(), log);
                if D >= 2 {
                    cmp("inradius", base_in, inradius(&q).ok(), log);
                }
            }
            if case.shift.len() == D {
                let moved: Vec<Vec<f64>> = pts.iter().map(|p| p.iter().zip(&case.shift).map(|(a, b)| a + b).collect()).collect();
                // only when the translation is exact in f64
                let exact_shift = moved.iter().zip(pts).all(|(m, p)| m.iter().zip(p).zip(&case.shift).all(|((m, p), s)| m - s == *p && m - p == *s));
                if exact_shift {
                    let q = lib_points::<D>(&moved);
                    let mut cmp = |name: &str, a: Option<f64>, b: Option<f64>, log: &mut CaseLog| {
                        log.evals += 1;
                        if let (Some(a), Some(b)) = (a, b) {
                            if rel_err(b, a) > 1e-9 + if name == "circumradius" { 2.0 * rs / ex.r } else { 0.0 } {
                                bad(log, "not_translation_invariant", name, format!("{name}: {a:e} vs {b:e} after translating {desc} by {:?}", case.shift));
                            }
                        }
                    };
                    cmp("simplex_volume", base_vol, simplex_volume(&q).ok(), log);
                    cmp("circumradius", base_r, circumradius(&q).ok(), log);
                    if D >= 2 {
                        cmp("inradius", base_in, inradius(&q).ok(), log);
                    }
                }
            }
            {
                let s = 2f64.powi(case.scale_pow);
                let scaled: Vec<Vec<f64>> = pts.iter().map(|p| p.iter().map(|a| a * s).collect()).collect();
                let q = lib_points::<D>(&scaled);
                let mut cmp = |name: &str, a: Option<f64>, b: Option<f64>, power: i32, log: &mut CaseLog| {
                    log.evals += 1;
                    if let (Some(a), Some(b)) = (a, b) {
                        let want = a * s.powi(power);
                        if rel_err(b, want) > 1e-12 {
                            bad(log, "wrong_scaling", name, format!("{name}: {a:e} scaled by 2^{} should be {want:e}, got {b:e} for {desc}", case.scale_pow));
                        }
                    }
                };
                cmp("simplex_volume", base_vol, simplex_volume(&q).ok(), D as i32, log);
                cmp("circumradius", base_r, circumradius(&q).ok(), 1, log);
                if D >= 2 {
                    cmp("inradius", base_in, inradius(&q).ok(), 1, log);
                }
            }
            // quality ratios on a real one-cell triangulation
            if D >= 2 {
                let verts: Vec<Vertex<f64, (), D>> = pts.iter().enumerate().map(|(i, p)| crate::gen::world::mk_vertex::<(), D>(p, crate::gen::points::uuid_for(case.perm_salt, i), None)).collect();
                if let Ok(dt) = DelaunayTriangulation::<FastKernel<f64>, (), (), D>::new(&verts) {
                    if dt.number_of_cells() == 1 && dt.number_of_vertices() == D + 1 {
                        let same = dt.vertices().all(|(_, v)| pts.iter().any(|p| p.as_slice() == v.point().coords().as_slice()));
                        if same {
                            let ck = dt.cells().next().unwrap().0;
                            check("radius_ratio", radius_ratio(dt.as_triangulation(), ck).map_err(|e| e.to_string()), ex.r / ex.inr, REL + rs / ex.r, log);
                            check("normalized_volume", normalized_volume(dt.as_triangulation(), ck).map_err(|e| e.to_string()), ex.vol / ex.avg_edge.powi(D as i32), REL, log);
                        }
                    }
                }
            }
        }
    }
}

pub fn exec(case: &Case, log: &mut CaseLog) {
    match case.dim {
        1 => run::<1>(case, log),
        2 => run::<2>(case, log),
        3 => run::<3>(case, log),
        4 => run::<4>(case, log),
        5 => run::<5>(case, log),
        _ => {}
    }
}

pub fn strategy(dim: usize) -> BoxedStrategy<Case> {
    (0u8..6, proptest::collection::vec(proptest::collection::vec(-1024i32..=1024, dim), dim + 1), proptest::collection::vec(-64i32..=64, dim), -8i32..=8, any::<u64>(), any::<[u8; 4]>())
        .prop_map(move |(fam, raw, shift, scale_pow, perm_salt, aux)| {
            let mut pts: Vec<Vec<f64>> = match fam {
                0 => raw.iter().map(|r| r.iter().map(|&v| (v % 17) as f64).collect()).collect(),
                1 => raw.iter().map(|r| r.iter().map(|&v| v as f64 / 1024.0 * 2f64.powi((aux[0] % 11) as i32)).collect()).collect(),
                2 => {
                    // right-angled corner with generated edge lengths
                    let mut p = vec![vec![0.0; dim]];
                    for j in 0..dim {
                        let mut q = vec![0.0; dim];
                        q[j] = 1.0 + (raw[j][0].unsigned_abs() % 64) as f64 / 8.0;
                        p.push(q);
                    }
                    p
                }
                3 => {
                    // exactly degenerate: last vertex an affine combination of the others (or a repeat)
                    let mut p: Vec<Vec<f64>> = raw.iter().map(|r| r.iter().map(|&v| (v % 9) as f64).collect()).collect();
                    if aux[1] % 3 == 0 || dim == 1 {
                        p[dim] = p[0].clone();
                    } else {
                        let w: Vec<i32> = (0..dim).map(|i| (aux[i % 4] as i32 % 5) - 2).collect();
                        let s: i32 = w.iter().sum();
                        let mut last = vec![0.0; dim];
                        for j in 0..dim {
                            let mut acc = 0.0;
                            for i in 0..dim {
                                acc += w[i] as f64 * p[i][j];
                            }
                            acc += (1 - s) as f64 * p[0][j];
                            last[j] = acc;
                        }
                        // combination of p[0..dim] only: lies in their affine hull
                        p[dim] = last;
                    }
                    p
                }
                4 => {
                    // skinny / obtuse: apex close to the opposite facet but inside the filter
                    let mut p: Vec<Vec<f64>> = raw.iter().map(|r| r.iter().map(|&v| (v % 33) as f64 / 4.0).collect()).collect();
                    let h = 2f64.powi(-((aux[2] % 6) as i32));
                    for j in 0..dim {
                        let mean: f64 = (0..dim).map(|i| p[i][j]).sum::<f64>() / dim as f64;
                        p[dim][j] = (mean * 64.0).round() / 64.0 + if j == dim - 1 { h } else { 0.0 };
                    }
                    p
                }
                _ => raw.iter().map(|r| r.iter().map(|&v| v as f64 / 16.0).collect()).collect(),
            };
            if fam != 3 && aux[3] % 4 <= 1 {
                // translate by a power of two (up to 2^40, exact: coordinates carry <= 10 fractional
                // bits and are < 2^11) along a generated subset of the axes
                let t = 2f64.powi((aux[3] / 4 % 41) as i32) * if aux[1] & 1 == 0 { 1.0 } else { -1.0 };
                let mask = if aux[3] % 4 == 0 { u8::MAX } else { aux[0] | 1 };
                for p in pts.iter_mut() {
                    for (j, c) in p.iter_mut().enumerate() {
                        if mask & (1 << (j % 8)) != 0 {
                            *c += t;
                        }
                    }
                }
            }
            Case { dim, pts, shift: shift.iter().map(|&v| v as f64 / 4.0).collect(), scale_pow, perm_salt }
        })
        .boxed()
}

pub fn run_shard(ctx: &mut Ctx) {
    // fixed classic degenerate cases first (shard 0 only)
    if ctx.shard == 0 {
        let fixed: Vec<Case> = vec![
            Case { dim: 2, pts: vec![vec![0.0, 0.0], vec![1.0, 1.0], vec![3.0, 3.0]], shift: vec![], scale_pow: 0, perm_salt: 1 },
            Case { dim: 3, pts: vec![vec![0.0, 0.0, 0.0], vec![1.0, 0.0, 0.0], vec![0.0, 1.0, 0.0], vec![1.0, 1.0, 0.0]], shift: vec![], scale_pow: 0, perm_salt: 1 },
            Case { dim: 1, pts: vec![vec![2.0], vec![2.0]], shift: vec![], scale_pow: 0, perm_salt: 1 },
        ];
        for c in &fixed {
            ctx.run_one("fixed_degenerate", c, &|c, l| exec(c, l));
        }
    }
    for dim in 1..=5usize {
        let n = ctx.share(ctx.tier.pick(40_000, 1_000_000));
        ctx.run_cases(&format!("simplices_d{dim}"), n, strategy(dim), &|c, l| exec(c, l));
    }
}

pub fn replay(_label: &str, case: &Value, ctx: &mut Ctx) -> Option<Violation> {
    let c: Case = serde_json::from_value(case.clone()).ok()?;
    ctx.run_one("replay", &c, &|c, l| exec(c, l))
}

pub fn meta() -> super::Meta {
    super::Meta {
        id: ID,
        level: "exploration",
        rule: "case = a D-simplex (D 1-5) with dyadic coordinates from families small-integer / fine dyadic x 2^k / right-angled / exactly degenerate (repeated vertex or affine combination) / skinny-obtuse / translated, plus a translation vector, a power-of-two scale and vertex permutations; volume, facet measures, circumcentre, circumradius, inradius and the two quality ratios are compared with exact rational values (relative error <= 1e-9 after the conditioning filter vol >= 2^-12 max_edge^D), checked for permutation/translation invariance and exact power-of-two scaling; exactly degenerate simplices must yield Err from every function; an evaluation is one function value compared; non-trivial = degenerate, or circumcentre outside the simplex, or vol < 2^-6 max_edge^D; distinct by coordinates",
        assumptions: &[
            "reference values come from exact rational Gram determinants / Cramer circumcentre converted to f64 (relative error < 1e-15)",
            "translation invariance only asserted when the translation is exact in f64",
        ],
        exhaustive: false,
        max_shards: 8,
    }
}
