//! Property registry.

use crate::driver::ctx::{Ctx, Violation};
use serde_json::Value;

pub struct Meta {
    pub id: &'static str,
    pub level: &'static str,
    pub rule: &'static str,
    pub assumptions: &'static [&'static str],
    pub exhaustive: bool,
    pub max_shards: usize,
}

macro_rules! registry {
    ($($m:ident),* $(,)?) => {
        $(pub mod $m;)*
        pub fn all_ids() -> Vec<&'static str> {
            vec![$($m::ID),*]
        }
        pub fn meta(id: &str) -> Option<Meta> {
            $(if id == $m::ID { return Some($m::meta()); })*
            None
        }
        pub fn run_shard(id: &str, ctx: &mut Ctx) {
            $(if id == $m::ID { return $m::run_shard(ctx); })*
        }
        pub fn replay(id: &str, label: &str, case: &Value, ctx: &mut Ctx) -> Option<Violation> {
            $(if id == $m::ID { return $m::replay(label, case, ctx); })*
            None
        }
    };
}

registry!(c01, c02, c03, c04, c05, c06, c07, c08, c09, c10, c11, c12, c13, c14, c15, c16, c17, c18, c19);
