//! Property registry.

use crate::driver::ctx::{Ctx, Violation};
use serde_json::Value;

pub struct Meta {
    pub id: &'static str,
    pub level: &'static str,
    pub rule: &'static str,
    pub assumptions: &'static [&'static str],
    pub exhaustive: bool,
    pub max_shards: usize,
}

macro_rules! registry {
    ($($m:ident),* $(,)?) => {
        $(pub mod $m;)*
        pub fn all_ids() -> Vec<&'static str> {
            vec![$($m::ID),*]
        }
        pub fn meta(id: &str) -> Option<Meta> {
            $(if id == $m::ID { return Some($m::meta()); })*
            None
        }
        pub fn run_shard(id: &str, ctx: &mut Ctx) {
            $(if id == $m::ID { return $m::run_shard(ctx); })*
        }
        pub fn replay(id: &str, label: &str, case: &Value, ctx: &mut Ctx) -> Option<Violation> {
            $(if id == $m::ID { return $m::replay(label, case, ctx); })*
            None
        }
    };
}

registry!(c01, c02, c03, c04, c05, c06, c07, c08, c09, c10, c11, c12, c13, c14, c15, c16, c17, c18, c19);

/// Coverage-guided entry used by the libFuzzer targets in /verif/fuzz: the bytes are decoded by
/// `gen::bytes` into the same case types (same value domains) the proptest strategies generate, the
/// property's own oracle runs on the case.  Returns (replay label, violation, case) for the first
/// violation that is not a known finding.
pub fn fuzz_bytes(id: &str, data: &[u8], ctx: &mut Ctx) -> Option<(String, Violation, Value)> {
    use crate::gen::bytes::{ops, start, Cur};
    use crate::gen::points::EXACT_FAMILIES;
    if data.len() < 4 {
        return None;
    }
    if id == "C13" {
        let doc = c13::raw_doc(data);
        return ctx.run_one("raw_document", &doc, &|c, l| c13::exec_raw(c, l)).map(|v| ("raw_document".to_string(), v, serde_json::to_value(&doc).unwrap_or(Value::Null)));
    }
    let mut c = Cur::new(data);
    let dim = 2 + (c.u8() as usize) % 4;
    let robust = c.bool();
    let salt = c.u8() as u64; // a few distinct UUID families are enough
    let nmax = |d: usize, a: [usize; 4]| a[d - 2];
    macro_rules! go {
        ($label:expr, $case:expr, $exec:path) => {{
            let label: String = $label;
            let case = $case;
            ctx.run_one(&label, &case, &|c, l| $exec(c, l)).map(|v| (label.clone(), v, serde_json::to_value(&case).unwrap_or(Value::Null)))
        }};
    }
    match id {
        "C02" => {
            let st = start(&mut c, dim, nmax(dim, [12, 10, 8, 8]), true, EXACT_FAMILIES);
            go!(format!("insertion_history_d{dim}"), c02::Case { dim, robust, salt, start: st, ops: ops(&mut c, dim, 10, 1 | 16, true, false) }, c02::exec)
        }
        "C03" => {
            let st = start(&mut c, dim, nmax(dim, [12, 10, 8, 8]), true, EXACT_FAMILIES);
            let o = ops(&mut c, dim, 8, 1 | 2 | 4 | 8 | 16, true, false);
            let inject_at = (0..1 + c.below(3)).map(|_| c.u16()).collect();
            go!(format!("rollback_history_d{dim}"), c03::Case { dim, robust, salt, start: st, ops: o, inject_at, twin_at: c.below(3) as u8, only: vec![] }, c03::exec)
        }
        "C04" => {
            let st = start(&mut c, dim, nmax(dim, [12, 10, 8, 7]), false, EXACT_FAMILIES);
            go!(format!("history_d{dim}"), c04::Case { dim, robust, salt, start: st, ops: ops(&mut c, dim, 8, 1 | 2 | 4, false, false) }, c04::exec)
        }
        "C06" => {
            let st = start(&mut c, dim, nmax(dim, [14, 12, 9, 9]), false, EXACT_FAMILIES);
            let o = ops(&mut c, dim, 10, 1 | 2 | 16, false, false);
            go!(format!("removal_history_d{dim}"), c06::Case { dim, robust, salt, start: st, ops: o, drain: c.below(4) == 0 }, c06::exec)
        }
        "C07" => {
            let st = start(&mut c, dim, nmax(dim, [10, 9, 7, 7]), false, EXACT_FAMILIES);
            let o = ops(&mut c, dim, 10, 1 | 4, false, false);
            go!(format!("flip_history_d{dim}"), c07::Case { dim, robust, salt, start: st, ops: o, exhaustive_handles: c.below(3) < 2 }, c07::exec)
        }
        "C09" => {
            let st = start(&mut c, dim, nmax(dim, [10, 9, 7, 7]), true, EXACT_FAMILIES);
            let o = ops(&mut c, dim, 8, 1 | 2 | 4 | 8 | 16 | 32, true, false);
            let probe_sel = (0..1 + c.below(2)).map(|_| c.u16()).collect();
            go!(format!("duplicate_history_d{dim}"), c09::Case { dim, robust, salt, start: st, ops: o, probe_sel, probe_stats: c.bool(), far: c.below(6) == 0 }, c09::exec)
        }
        "C15" => {
            let st = start(&mut c, dim, nmax(dim, [12, 10, 8, 7]), true, EXACT_FAMILIES);
            go!(format!("query_history_d{dim}"), c15::Case { dim, robust, salt, start: st, ops: ops(&mut c, dim, 10, 1 | 2 | 4 | 8 | 16 | 32, false, false) }, c15::exec)
        }
        "C19" => {
            let st = start(&mut c, dim, nmax(dim, [12, 10, 8, 7]), true, EXACT_FAMILIES);
            go!(format!("adversarial_history_d{dim}"), c19::Case { dim, robust, salt, start: st, ops: ops(&mut c, dim, 14, 1 | 2 | 4 | 8 | 16 | 32, true, true) }, c19::exec)
        }
        _ => None,
    }
}
