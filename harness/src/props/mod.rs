//! Property registry.

use crate::driver::ctx::{Ctx, Violation};
use serde_json::Value;

pub mod c12;

pub struct Meta {
    pub id: &'static str,
    pub level: &'static str,
    pub rule: &'static str,
    pub assumptions: &'static [&'static str],
    pub exhaustive: bool,
    pub max_shards: usize,
}

pub fn all_ids() -> Vec<&'static str> {
    vec!["C12"]
}

pub fn meta(id: &str) -> Option<Meta> {
    Some(match id {
        "C12" => Meta {
            id: "C12",
            level: "exploration",
            rule: "cases = (D+1)-simplex + query point: every ordered tuple of the {0,1,2}^2 grid (exhaustive) and of the {0,1}^3 cube (exhaustive in thorough, a seed-chosen quarter in quick), plus proptest-generated integer/dyadic/cospherical/flat/translated tuples for D=2..5, each under all (D<=3) or up to 24 vertex permutations; an evaluation = one predicate call compared with the exact sign when the determinant is outside tol+rounding bound; non-trivial = exact orientation or in-sphere determinant is 0, or |det| < 1024*(tol+bound); distinct by coordinate tuple",
            assumptions: &[
                "tolerance band = base_tol + 1e-12*max row sum (geometry/matrix.rs::adaptive_tolerance); rounding bound = 2*gamma_n*sum|cof_ij|(|L||U|)_ij from a mirrored GEPP, see DESIGN 2.1",
                "insphere_distance is held only to the no-opposite-strict-answers cross-check",
                "no demand on in-sphere answers when the simplex itself is flat or in band",
            ],
            exhaustive: false,
            max_shards: 8,
        },
        _ => return None,
    })
}

pub fn run_shard(id: &str, ctx: &mut Ctx) {
    match id {
        "C12" => c12::run_shard(ctx),
        _ => {}
    }
}

pub fn replay(id: &str, label: &str, case: &Value, ctx: &mut Ctx) -> Option<Violation> {
    match id {
        "C12" => c12::replay(label, case, ctx),
        _ => None,
    }
}
