//! Property registry.

use crate::driver::ctx::{Ctx, Violation};
use serde_json::Value;

pub struct Meta {
    pub id: &'static str,
    pub level: &'static str,
    pub rule: &'static str,
    pub assumptions: &'static [&'static str],
    pub exhaustive: bool,
    pub max_shards: usize,
}

macro_rules! registry {
    ($($m:ident),* $(,)?) => {
        $(pub mod $m;)*
        pub fn all_ids() -> Vec<&'static str> {
            vec![$($m::ID),*]
        }
        pub fn meta(id: &str) -> Option<Meta> {
            $(if id == $m::ID { return Some($m::meta()); })*
            None
        }
        pub fn run_shard(id: &str, ctx: &mut Ctx) {
            $(if id == $m::ID { return $m::run_shard(ctx); })*
        }
        pub fn replay(id: &str, label: &str, case: &Value, ctx: &mut Ctx) -> Option<Violation> {
            $(if id == $m::ID { return $m::replay(label, case, ctx); })*
            None
        }
    };
}

registry!(c01, c02, c03, c04, c05, c06, c07, c08, c09, c10, c11, c12, c13, c14, c15, c16, c17, c18, c19);

/// Coverage-guided entry used by the libFuzzer targets in /verif/fuzz: `data[0]` picks the
/// dimension / sub-generator, the remaining bytes are the random stream of that property's
/// proptest strategy.  Returns (replay label, violation, case) for the first unknown violation.
pub fn fuzz_bytes(id: &str, data: &[u8], ctx: &mut Ctx) -> Option<(String, Violation, Value)> {
    if data.len() < 2 {
        return None;
    }
    let sel = data[0] as usize;
    let dim = 2 + sel % 4;
    let rest = &data[1..];
    macro_rules! go {
        ($label:expr, $strat:expr, $exec:path) => {{
            let label: String = $label;
            ctx.run_bytes(&label, $strat, rest, &|c, l| $exec(c, l)).map(|(v, c)| (label.clone(), v, c))
        }};
    }
    match id {
        "C02" => go!(format!("insertion_history_d{dim}"), c02::strategy(dim, 10, false), c02::exec),
        "C03" => go!(format!("rollback_history_d{dim}"), c03::strategy(dim, 8), c03::exec),
        "C04" => go!(format!("history_d{dim}"), c04::strategy(dim, 8), c04::exec),
        "C06" => go!(format!("removal_history_d{dim}"), c06::strategy(dim, 10, false), c06::exec),
        "C07" => go!(format!("flip_history_d{dim}"), c07::strategy(dim, 10), c07::exec),
        "C08" => go!(format!("repair_history_d{dim}"), c08::strategy(dim, 8), c08::exec),
        "C09" => go!(format!("duplicate_history_d{dim}"), c09::strategy(dim, 8), c09::exec),
        "C11" => go!(format!("hull_history_d{dim}"), c11::strategy(dim, 8), c11::exec),
        "C12" => go!(format!("random_d{dim}"), c12::tuple_strategy(dim), c12::exec),
        "C15" => go!(format!("query_history_d{dim}"), c15::strategy(dim, 10), c15::exec),
        "C17" => go!(format!("lists_d{dim}"), c17::list_strategy(dim, 60), c17::exec),
        "C18" => go!(format!("simplices_d{}", 1 + sel % 5), c18::strategy(1 + sel % 5), c18::exec),
        "C19" => {
            if sel % 8 == 7 {
                go!(format!("pb_c01x_d{dim}"), c19::extreme_batch_strategy(dim), c19::exec_c01_monitor)
            } else {
                go!(format!("adversarial_history_d{dim}"), c19::strategy(dim, 14), c19::exec)
            }
        }
        _ => None,
    }
}
