//! C09 — duplicate coordinates and UUIDs are rejected in every history.

use crate::dispatch_kd;
use crate::driver::ctx::{hash_of, CaseLog, Ctx, Tier, Violation};
use crate::exact::bigint::Rat;
use crate::gen::history::{op_strategy, start_strategy, start_world, Op, OpMix, Outcome, Start, World};
use crate::gen::points::{uuid_for, NEARDUP_LADDER};
use crate::gen::world::{pick, Kern};
use crate::oracle::snap::Snap;
use proptest::prelude::*;
use serde::{Deserialize, Serialize};
use serde_json::Value;

pub const ID: &str = "C09";
const TOL: f64 = 1e-10;

#[derive(Debug, Clone, Serialize, Deserialize)]
pub struct Case {
    pub dim: usize,
    pub robust: bool,
    pub salt: u64,
    pub start: Start,
    pub ops: Vec<Op>,
    /// which vertices to probe after every step (selectors); all vertices are probed at the end
    pub probe_sel: Vec<u16>,
    pub probe_stats: bool,
    /// coordinate offset added to every start point (large values disable the hash grid)
    pub far: bool,
}

/// -1: decidably closer than the tolerance, +1: decidably farther, 0: in the rounding band
fn cmp_tol(a: &[f64], b: &[f64]) -> i32 {
    let mut d2 = Rat::from_f64(0.0);
    for (x, y) in a.iter().zip(b) {
        let d = Rat::from_f64(*x).sub(&Rat::from_f64(*y));
        d2 = d2.add(&d.mul(&d));
    }
    let t = Rat::from_f64(TOL);
    let t2 = t.mul(&t);
    // floating-point evaluation of the squared distance: relative 1e-9 plus cancellation slack
    let m = a.iter().chain(b.iter()).fold(0.0f64, |m, x| m.max(x.abs()));
    let slack = Rat::from_f64((m * f64::EPSILON * 8.0).powi(2));
    let lo = t2.mul(&Rat::from_f64(1.0 - 1e-6));
    let hi = t2.mul(&Rat::from_f64(1.0 + 1e-6)).add(&slack);
    if d2.add(&slack).cmp(&lo) == std::cmp::Ordering::Less {
        -1
    } else if d2.cmp(&hi) == std::cmp::Ordering::Greater {
        1
    } else {
        0
    }
}

fn mk(kind: &str, site: &str, msg: String, dim: usize, kernel: &str) -> Violation {
    Violation::new(ID, kind, site, msg).fact("dim", dim as u64).fact("kernel", kernel)
}

/// invariant: no two present vertices decidably within tolerance, UUIDs unique
fn invariant<K: Kern<D>, const D: usize>(s: &Snap, ctx: &str, last_op: &str, log: &mut CaseLog) {
    for i in 0..s.verts.len() {
        for j in i + 1..s.verts.len() {
            if s.verts[i].uuid == s.verts[j].uuid {
                log.violate(mk("duplicate_uuid_present", last_op, format!("{ctx}: two vertices share uuid {:032x}", s.verts[i].uuid), D, K::NAME));
                return;
            }
            if s.all_finite() && cmp_tol(&s.verts[i].coords, &s.verts[j].coords) < 0 {
                log.violate(mk(
                    "duplicate_coordinates_present",
                    last_op,
                    format!("{ctx}: vertices at {:?} and {:?} are closer than the 1e-10 duplicate tolerance", s.verts[i].coords, s.verts[j].coords),
                    D,
                    K::NAME,
                ));
                return;
            }
        }
    }
}

struct ProbeCtx<'a> {
    step: String,
    /// how the probed vertex entered / left: label of the operation that touched it last
    provenance: &'a str,
    /// did any earlier step replace the vertex keys (heuristic rebuild)?
    rekeyed: bool,
}

fn probes<K: Kern<D>, const D: usize>(w: &World<K, D>, s: &Snap, which: &[usize], stats: bool, pc: &ProbeCtx, nontrivial: &mut bool, log: &mut CaseLog) {
    if s.cells.is_empty() || !s.all_finite() {
        return; // bootstrap phase: the property's probes are defined on a triangulation with cells
    }
    let mut fresh = 0usize;
    for &vi in which {
        let v = &s.verts[vi];
        for (li, step) in NEARDUP_LADDER.iter().enumerate() {
            let mut p = v.coords.clone();
            p[li % D] += *step;
            // classification against ALL live vertices
            let mut nearest = 1;
            for u in &s.verts {
                let c = cmp_tol(&p, &u.coords);
                nearest = nearest.min(c);
            }
            fresh += 1;
            let uuid = uuid_for(w.salt ^ 0x9999, w.next_id + 1000 + fresh).as_u128();
            let out = w.probe_insert(&p, uuid, stats);
            log.evals += 1;
            if nearest < 0 {
                *nontrivial = true;
                let ok = match &out {
                    Outcome::InsertErr { class, .. } => *class == "DuplicateCoordinates",
                    Outcome::Skipped { class, duplicate, .. } => *class == "DuplicateCoordinates" && *duplicate,
                    _ => false,
                };
                if !ok {
                    log.violate(
                        mk(
                            "duplicate_not_refused",
                            "insert",
                            format!("{}: probe {:?} within tolerance of live vertex {:?} (step {:e}) was answered {} instead of the duplicate-coordinates outcome: {:?}", pc.step, p, v.coords, step, out.label(), out),
                            D,
                            K::NAME,
                        )
                        .fact("outcome", out.label())
                        .fact("provenance", pc.provenance),
                    );
                    return;
                }
            }
            // (a probe farther than the tolerance may still legitimately end as DuplicateCoordinates:
            //  the documented perturbation retry can move it onto a live vertex; the property only
            //  forbids refusing a point as a duplicate of a vertex that is NO LONGER present)
        }
    }
    // reused UUIDs: a live UUID at a far-away fresh position
    if let Some(&vi) = which.first() {
        let v = &s.verts[vi];
        let lo: Vec<f64> = (0..D).map(|j| s.verts.iter().map(|x| x.coords[j]).fold(f64::INFINITY, f64::min)).collect();
        let p: Vec<f64> = (0..D).map(|j| lo[j] - 3.0 - j as f64).collect();
        let out = w.probe_insert(&p, v.uuid, stats);
        log.evals += 1;
        let ok = match &out {
            Outcome::InsertErr { class, .. } => *class == "DuplicateUuid",
            Outcome::Skipped { class, .. } => *class == "DuplicateUuid",
            _ => false,
        };
        if !ok {
            log.violate(mk("duplicate_uuid_not_refused", "insert", format!("{}: probe with the UUID of a live vertex was answered {}: {:?}", pc.step, out.label(), out), D, K::NAME).fact("outcome", out.label()));
            return;
        }
    }
    // former positions
    for (k, (uuid, pos)) in w.removed.iter().enumerate().take(6) {
        if s.verts.iter().any(|x| x.uuid == *uuid) {
            continue;
        }
        // only positions with no live vertex anywhere near (a perturbation retry of 1e-8 x local
        // scale must not be able to land on a live vertex)
        let extent = s.verts.iter().flat_map(|v| v.coords.iter()).fold(1.0f64, |m, x| m.max(x.abs()));
        let clear = s.verts.iter().all(|u| {
            let d2: f64 = u.coords.iter().zip(pos).map(|(a, b)| (a - b) * (a - b)).sum();
            d2.sqrt() > 1e-5 * extent
        });
        if !clear {
            continue;
        }
        *nontrivial = true;
        let fresh_uuid = uuid_for(w.salt ^ 0x7777, w.next_id + 5000 + k).as_u128();
        for (u, what) in [(fresh_uuid, "fresh uuid"), (*uuid, "the removed vertex's own uuid")] {
            let out = w.probe_insert(pos, u, stats);
            log.evals += 1;
            let refused_dup = match &out {
                Outcome::InsertErr { class, .. } => *class == "DuplicateCoordinates" || *class == "DuplicateUuid",
                Outcome::Skipped { class, duplicate, .. } => *class == "DuplicateCoordinates" || *class == "DuplicateUuid" || *duplicate,
                _ => false,
            };
            if refused_dup {
                log.violate(mk("refused_as_duplicate_of_removed_vertex", "insert", format!("{}: probe at the former position {:?} of a removed vertex ({what}) was refused as a duplicate: {:?}", pc.step, pos, out), D, K::NAME));
                return;
            }
        }
    }
}

fn run<K: Kern<D>, const D: usize>(case: &Case, log: &mut CaseLog) {
    log.class(format!("D{D}"));
    log.class(format!("kernel:{}", K::NAME));
    let mut start = case.start.clone();
    if case.far {
        for p in start.points.iter_mut() {
            for c in p.iter_mut() {
                *c += 4194304.0; // 2^22: adding the 1e-10 grid cell no longer changes the coordinate
            }
        }
        log.class("far_coordinates(grid index unusable)");
    }
    let Some(mut w) = start_world::<K, D>(&start, case.salt) else {
        log.class("start:construction_err");
        return;
    };
    let mut before = w.snap();
    invariant::<K, D>(&before, "after batch construction", "construct", log);
    let mut nontrivial = false;
    let mut last_nonins = "construct";
    let mut ever_rekeyed = false;
    for (step, op) in case.ops.iter().enumerate() {
        let (res, out) = w.apply(&before, op);
        if matches!(out, Outcome::SetPanicked { .. }) {
            // debug_assert!(false) inside a policy setter (debug-assertion profile): C19's matter; the
            // triangulation may be half-updated, so this history ends here
            log.class("setter_panicked(C19)");
            break;
        }
        let after = w.snap();
        log.class(format!("op:{}", out.label()));
        let rekeyed = before.verts.iter().any(|b| after.verts.iter().any(|a| a.uuid == b.uuid && a.key != b.key));
        if rekeyed {
            ever_rekeyed = true;
            log.class("vertex_keys_changed(rebuild)");
        }
        if std::env::var_os("DVCHECK_DEBUG").is_some() {
            eprintln!("step {step}: {} -> {} rekeyed={rekeyed} verts {}->{}", res.desc, out.label(), before.verts.len(), after.verts.len());
        }
        let opname: &'static str = match op {
            Op::Insert { .. } => "insert",
            Op::Remove { .. } => "remove_vertex",
            Op::FlipK1Insert { .. } => "flip_k1_insert",
            Op::FlipK1Remove { .. } => "flip_k1_remove",
            Op::FlipK2 { .. } | Op::FlipK3 { .. } | Op::FlipK2Inv { .. } | Op::FlipK3Inv { .. } => "flip",
            Op::Repair | Op::RepairAdvanced { .. } => "repair",
            Op::CloneSwap => "clone",
            Op::TouchMut => "as_triangulation_mut",
            Op::SerdeSwap => "serde_roundtrip",
            _ => "setter",
        };
        if !matches!(op, Op::Insert { .. }) && !out.is_failure() && !matches!(out, Outcome::Set) {
            last_nonins = opname;
        }
        // only `insert`/construction are bound by the invariant; Edit-API flips may place vertices anywhere,
        // so the pairwise check is applied after insert steps and tolerates pairs created by flip_k1_insert
        if matches!(op, Op::Insert { .. }) {
            if let Outcome::Inserted { coords, uuid, .. } = &out {
                // the new vertex must not be within tolerance of any previously present vertex
                if let Some(nv) = after.verts.iter().find(|v| v.uuid == *uuid) {
                    for u in &before.verts {
                        if cmp_tol(&nv.coords, &u.coords) < 0 {
                            log.violate(
                                mk("duplicate_inserted", "insert", format!("step {step} ({}): inserted vertex stored at {:?} is within the 1e-10 tolerance of existing vertex {:?} (offered {:?})", res.desc, nv.coords, u.coords, coords), D, K::NAME)
                                    .fact("provenance", last_nonins),
                            );
                        }
                    }
                }
                if res.adversarial {
                    log.violate(mk("duplicate_uuid_inserted", "insert", format!("step {step} ({}): a vertex reusing a live UUID was inserted", res.desc), D, K::NAME));
                }
                let uu: std::collections::HashSet<u128> = after.verts.iter().map(|v| v.uuid).collect();
                if uu.len() != after.verts.len() {
                    log.violate(mk("duplicate_uuid_present", "insert", format!("step {step}: duplicate UUIDs present after insert"), D, K::NAME));
                }
            }
        }
        if !log.violations.is_empty() {
            return;
        }
        // probes after every step that changed the triangulation through a non-insert path, and some after inserts
        if !after.verts.is_empty() {
            let which: Vec<usize> = case.probe_sel.iter().map(|s| pick(*s, after.verts.len())).collect();
            let pc = ProbeCtx { step: format!("after step {step} ({})", res.desc), provenance: last_nonins, rekeyed: ever_rekeyed };
            probes(&w, &after, &which, case.probe_stats, &pc, &mut nontrivial, log);
            if !log.violations.is_empty() {
                return;
            }
        }
        before = after;
    }
    // final exhaustive probe of every current vertex
    let all: Vec<usize> = (0..before.verts.len()).collect();
    let pc = ProbeCtx { step: "at the end of the history".into(), provenance: last_nonins, rekeyed: ever_rekeyed };
    probes(&w, &before, &all, !case.probe_stats, &pc, &mut nontrivial, log);
    if last_nonins != "construct" || !w.removed.is_empty() {
        log.class("has_non_insert_mutation");
    } else {
        nontrivial = false;
    }
    if nontrivial {
        log.nontrivial_hash(hash_of(&serde_json::to_string(case).unwrap_or_default()));
    }
}

pub fn exec(case: &Case, log: &mut CaseLog) {
    if !(2..=5).contains(&case.dim) || case.start.points.iter().any(|p| p.len() != case.dim) {
        return;
    }
    dispatch_kd!(case.dim, case.robust, run, case, log)
}

pub const MIX: OpMix = OpMix { insert: 6, remove: 4, flips: 5, repair: 2, setters: 1, clone: 2, adversarial_uuid: true };

pub fn strategy(dim: usize, max_ops: usize) -> BoxedStrategy<Case> {
    let nmax = match dim {
        2 => 10,
        3 => 9,
        4 => 7,
        _ => 7,
    };
    (any::<bool>(), any::<u64>(), start_strategy(dim, nmax, 1), proptest::collection::vec(prop_oneof![24 => op_strategy(dim, MIX), 1 => Just(Op::SerdeSwap)], 1..=max_ops), proptest::collection::vec(any::<u16>(), 1..=2), any::<bool>(), prop_oneof![5 => Just(false), 1 => Just(true)])
        .prop_map(move |(robust, salt, start, ops, probe_sel, probe_stats, far)| Case { dim, robust, salt, start, ops, probe_sel, probe_stats, far })
        .boxed()
}

pub fn run_shard(ctx: &mut Ctx) {
    let thorough = ctx.tier == Tier::Thorough;
    let max_ops = if thorough { 24 } else { 8 };
    for dim in 2..=5usize {
        let total = match (ctx.tier, dim) {
            (Tier::Quick, 2) => 1000,
            (Tier::Quick, 3) => 800,
            (Tier::Quick, 4) => 400,
            (Tier::Quick, _) => 250,
            (Tier::Thorough, 2) => 30_000,
            (Tier::Thorough, 3) => 24_000,
            (Tier::Thorough, 4) => 12_000,
            (Tier::Thorough, _) => 8_000,
        };
        let n = ctx.share(total);
        ctx.run_cases(&format!("duplicate_history_d{dim}"), n, strategy(dim, max_ops), &|c, l| exec(c, l));
    }
}

pub fn replay(_label: &str, case: &Value, ctx: &mut Ctx) -> Option<Violation> {
    let c: Case = serde_json::from_value(case.clone()).ok()?;
    ctx.run_one("replay", &c, &|c, l| exec(c, l))
}

pub fn meta() -> super::Meta {
    super::Meta {
        id: ID,
        level: "exploration",
        rule: "stateful: start state (empty or batch-constructed, optionally translated by 2^22 so the 1e-10 hash grid cannot key the coordinates) followed by generated insert / remove_vertex / Edit-API flips incl. flip_k1_insert and flip_k1_remove / repair (plain and advanced) / clone / as_triangulation_mut / serde round trip of the Tds followed by from_tds_with_topology_guarantee (1 op in 25) / policy setters; after every step selected vertices, and at the end every vertex, are probed on a clone with insertions at the duplicate-tolerance ladder (0, 5e-11, 9.9e-11, 1e-10, 1.1e-10, 1e-9, 1e-6), with a live UUID, and at the former positions of removed vertices; exact rational distance decides what each probe must answer; evaluations = probe insertions; non-trivial = history with a probe within tolerance of a live vertex or at a former position AND at least one successful non-insert mutation before it; distinct by the whole case",
        assumptions: &[
            "duplicate tolerance 1e-10 on the Euclidean distance (insert_transactional); squared distances within 1e-6 relative of tol^2 are in band",
            "probes are made on a triangulation that has cells (during bootstrap the library documents a linear scan without index)",
            "serde round trips are covered under C13 (the generic history uses vertex data, for which DelaunayTriangulation has no Deserialize impl)",
        ],
        exhaustive: false,
        max_shards: 8,
    }
}
