pub mod driver;
pub mod exact;
pub mod gen;
pub mod oracle;
pub mod props;
