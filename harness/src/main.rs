fn main() {
    std::process::exit(dvcheck::driver::run::main_entry());
}
