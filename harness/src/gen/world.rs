//! Shared glue between generated cases and the library's generic API.

use crate::oracle::levels::Guarantee;
use crate::oracle::snap::{DataVal, Snap};
use delaunay::core::delaunay_triangulation::{
    ConstructionOptions, DedupPolicy, DelaunayTriangulation, InitialSimplexStrategy, InsertionOrderStrategy, RetryPolicy,
};
use delaunay::core::triangulation::TopologyGuarantee;
use delaunay::core::vertex::Vertex;
use delaunay::geometry::kernel::{FastKernel, Kernel, RobustKernel};
use delaunay::geometry::point::Point;
use delaunay::geometry::traits::coordinate::Coordinate;
use proptest::prelude::*;
use serde::{Deserialize, Serialize};
use std::num::NonZeroUsize;

pub trait Kern<const D: usize>: Kernel<D, Scalar = f64> + Clone + Default + 'static {
    const NAME: &'static str;
    fn make() -> Self;
}
impl<const D: usize> Kern<D> for FastKernel<f64> {
    const NAME: &'static str = "fast";
    fn make() -> Self {
        FastKernel::new()
    }
}
impl<const D: usize> Kern<D> for RobustKernel<f64> {
    const NAME: &'static str = "robust";
    fn make() -> Self {
        RobustKernel::new()
    }
}

pub type Dt<K, U, const D: usize> = DelaunayTriangulation<K, U, (), D>;

pub fn mk_point<const D: usize>(c: &[f64]) -> Point<f64, D> {
    Point::new(<[f64; D]>::try_from(c).expect("dimension"))
}

pub fn mk_vertex<U: DataVal, const D: usize>(c: &[f64], uuid: uuid::Uuid, data: Option<i64>) -> Vertex<f64, U, D> {
    Vertex::new_with_uuid(mk_point::<D>(c), uuid, data.and_then(U::from_i64))
}

pub fn snap_of<K: Kern<D>, U: DataVal, const D: usize>(dt: &Dt<K, U, D>) -> Snap {
    Snap::of(dt.tds())
}

pub fn guarantee_of(t: TopologyGuarantee) -> Guarantee {
    match t {
        TopologyGuarantee::Pseudomanifold => Guarantee::Pseudomanifold,
        TopologyGuarantee::PLManifold => Guarantee::PLManifold,
        TopologyGuarantee::PLManifoldStrict => Guarantee::PLManifoldStrict,
    }
}

#[derive(Debug, Clone, Copy, Serialize, Deserialize, PartialEq, Eq, Hash)]
pub struct OptSpec {
    pub order: u8,
    pub dedup: u8,
    pub initial: u8,
    pub retry: u8,
    pub guarantee: u8,
    pub seed: u64,
}

pub const DEDUP_EPS: [f64; 4] = [0.0, 1e-12, 1e-10, 1e-6];

impl OptSpec {
    pub fn default_spec() -> Self {
        OptSpec { order: 3, dedup: 0, initial: 0, retry: 5, guarantee: 1, seed: 0 }
    }
    pub fn order(&self) -> InsertionOrderStrategy {
        match self.order % 4 {
            0 => InsertionOrderStrategy::Input,
            1 => InsertionOrderStrategy::Lexicographic,
            2 => InsertionOrderStrategy::Morton,
            _ => InsertionOrderStrategy::Hilbert,
        }
    }
    pub fn dedup(&self) -> DedupPolicy {
        match self.dedup % 6 {
            0 => DedupPolicy::Off,
            1 => DedupPolicy::Exact,
            k => DedupPolicy::Epsilon { tolerance: DEDUP_EPS[(k - 2) as usize] },
        }
    }
    pub fn dedup_eps(&self) -> Option<f64> {
        match self.dedup % 6 {
            0 | 1 => None,
            k => Some(DEDUP_EPS[(k - 2) as usize]),
        }
    }
    pub fn initial(&self) -> InitialSimplexStrategy {
        if self.initial % 2 == 0 {
            InitialSimplexStrategy::First
        } else {
            InitialSimplexStrategy::Balanced
        }
    }
    pub fn retry(&self) -> RetryPolicy {
        let nz = |n: usize| NonZeroUsize::new(n).unwrap();
        match self.retry % 6 {
            0 => RetryPolicy::Disabled,
            1 => RetryPolicy::Shuffled { attempts: nz(1), base_seed: Some(self.seed) },
            2 => RetryPolicy::Shuffled { attempts: nz(3), base_seed: Some(self.seed ^ 0x55) },
            3 => RetryPolicy::Shuffled { attempts: nz(2), base_seed: None },
            4 => RetryPolicy::DebugOnlyShuffled { attempts: nz(2), base_seed: Some(self.seed) },
            _ => RetryPolicy::default(),
        }
    }
    pub fn guarantee(&self) -> TopologyGuarantee {
        match self.guarantee % 3 {
            0 => TopologyGuarantee::Pseudomanifold,
            1 => TopologyGuarantee::PLManifold,
            _ => TopologyGuarantee::PLManifoldStrict,
        }
    }
    pub fn options(&self) -> ConstructionOptions {
        ConstructionOptions::default()
            .with_insertion_order(self.order())
            .with_dedup_policy(self.dedup())
            .with_initial_simplex_strategy(self.initial())
            .with_retry_policy(self.retry())
    }
    pub fn label(&self) -> String {
        format!("order{}_dedup{}_init{}_retry{}_g{}", self.order % 4, self.dedup % 6, self.initial % 2, self.retry % 6, self.guarantee % 3)
    }
}

pub fn opt_spec() -> BoxedStrategy<OptSpec> {
    (0u8..4, prop_oneof![3 => Just(0u8), 1 => 1u8..6], 0u8..2, 0u8..6, 0u8..3, any::<u64>())
        .prop_map(|(order, dedup, initial, retry, guarantee, seed)| OptSpec { order, dedup, initial, retry, guarantee, seed })
        .boxed()
}

/// Monotone index map (shrinks towards 0): u16 selector -> index in 0..len
pub fn pick(sel: u16, len: usize) -> usize {
    if len == 0 {
        0
    } else {
        ((sel as usize) * len) >> 16
    }
}

/// Dispatch on (dimension, robust kernel?) to a generic function `f::<K, D>(args...)`.
#[macro_export]
macro_rules! dispatch_kd {
    ($dim:expr, $robust:expr, $f:ident, $($args:expr),*) => {
        match ($dim, $robust) {
            (2, false) => $f::<delaunay::geometry::kernel::FastKernel<f64>, 2>($($args),*),
            (3, false) => $f::<delaunay::geometry::kernel::FastKernel<f64>, 3>($($args),*),
            (4, false) => $f::<delaunay::geometry::kernel::FastKernel<f64>, 4>($($args),*),
            (5, false) => $f::<delaunay::geometry::kernel::FastKernel<f64>, 5>($($args),*),
            (2, true) => $f::<delaunay::geometry::kernel::RobustKernel<f64>, 2>($($args),*),
            (3, true) => $f::<delaunay::geometry::kernel::RobustKernel<f64>, 3>($($args),*),
            (4, true) => $f::<delaunay::geometry::kernel::RobustKernel<f64>, 4>($($args),*),
            (5, true) => $f::<delaunay::geometry::kernel::RobustKernel<f64>, 5>($($args),*),
            _ => panic!("unsupported dimension"),
        }
    };
}

/// Dispatch on dimension only: `f::<D>(args...)`
#[macro_export]
macro_rules! dispatch_d {
    ($dim:expr, $f:ident, $($args:expr),*) => {
        match $dim {
            2 => $f::<2>($($args),*),
            3 => $f::<3>($($args),*),
            4 => $f::<4>($($args),*),
            5 => $f::<5>($($args),*),
            _ => panic!("unsupported dimension"),
        }
    };
}
