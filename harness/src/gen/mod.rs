pub mod points;
