pub mod points;
pub mod world;
pub mod history;
