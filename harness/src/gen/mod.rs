pub mod points;
pub mod world;
pub mod bytes;
pub mod history;
