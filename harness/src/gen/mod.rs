pub mod points;
pub mod world;
