//! Point-set generators (proptest strategies).  A *recipe* of small integers is generated and
//! shrunk by proptest; the mapping recipe -> points is a pure function, so replay files only need
//! the points.

use proptest::prelude::*;
use serde::{Deserialize, Serialize};

#[derive(Debug, Clone, Serialize, Deserialize, PartialEq)]
pub struct PointSet {
    pub family: String,
    pub dim: usize,
    pub pts: Vec<Vec<f64>>,
}

pub const FAMILIES: [&str; 8] = ["general", "grid", "cospherical", "flat", "clustered", "neardup", "scaled", "fine"];

pub const NEARDUP_LADDER: [f64; 7] = [0.0, 5e-11, 9.9e-11, 1e-10, 1.1e-10, 1e-9, 1e-6];

#[derive(Debug, Clone)]
pub struct Recipe {
    pub family: u8,
    pub raw: Vec<Vec<i32>>,
    pub aux: [u8; 4],
}

fn perm_from(keys: &[i32]) -> Vec<usize> {
    let mut idx: Vec<usize> = (0..keys.len()).collect();
    idx.sort_by_key(|&i| (keys[i], i));
    idx
}

pub fn build(dim: usize, r: &Recipe) -> PointSet {
    let fam = (r.family as usize) % FAMILIES.len();
    let n = r.raw.len();
    let mut pts: Vec<Vec<f64>> = Vec::with_capacity(n);
    match fam {
        0 => {
            // general: dyadic k/16, |x| <= 64
            for row in &r.raw {
                pts.push(row.iter().map(|&v| (v % 1025) as f64 / 16.0).collect());
            }
        }
        1 => {
            // grid: integers in a 3..6 wide box
            let w = 3 + (r.aux[0] % 4) as i32;
            for row in &r.raw {
                pts.push(row.iter().map(|&v| v.rem_euclid(w) as f64).collect());
            }
        }
        2 => {
            // cospherical: signed permutations of a small integer vector around an integer centre,
            // every fourth point a small grid point (inside / near the sphere)
            let base: Vec<i32> = (0..dim).map(|j| if j == 0 { 2 } else if j == 1 { 1 } else { (r.aux[1] as i32 >> j) & 1 }).collect();
            let centre: Vec<i32> = (0..dim).map(|j| (r.aux[2] as i32 + j as i32) % 3).collect();
            for (i, row) in r.raw.iter().enumerate() {
                if i % 4 == 3 {
                    pts.push(row.iter().zip(&centre).map(|(&v, &c)| (v.rem_euclid(3) - 1 + c) as f64).collect());
                } else {
                    let p = perm_from(row);
                    pts.push((0..dim).map(|j| {
                        let s = if row[j] & 1 == 0 { 1 } else { -1 };
                        (s * base[p[j]] + centre[j]) as f64
                    }).collect());
                }
            }
        }
        3 => {
            // flat: all but 1..3 points on the hyperplane x_last = 0 (and a collinear/coplanar prefix)
            let off = 1 + (r.aux[0] % 3) as usize;
            for (i, row) in r.raw.iter().enumerate() {
                let mut p: Vec<f64> = row.iter().map(|&v| (v % 9) as f64).collect();
                if i + off < n || n <= dim + 1 && i < dim {
                    p[dim - 1] = 0.0;
                    if i < dim && r.aux[1] % 2 == 0 && dim >= 2 {
                        // collinear prefix along the first axis
                        for c in p.iter_mut().skip(1) {
                            *c = 0.0;
                        }
                        p[0] = i as f64;
                    }
                }
                pts.push(p);
            }
        }
        4 => {
            // clustered: few centres + tiny dyadic offsets
            let nc = 1 + (r.aux[0] % 3) as usize;
            let e = 20 + (r.aux[1] % 26) as i32;
            for (i, row) in r.raw.iter().enumerate() {
                let c = (row[0].unsigned_abs() as usize) % nc;
                let centre: Vec<f64> = (0..dim).map(|j| (r.raw[c % n][j] % 65) as f64 / 4.0).collect();
                if i < nc + dim {
                    // a few well separated points so that a first simplex exists
                    pts.push(row.iter().map(|&v| (v % 65) as f64 / 4.0).collect());
                } else {
                    pts.push((0..dim).map(|j| centre[j] + ((row[j] % 8) as f64) * 2f64.powi(-e)).collect());
                }
            }
        }
        5 => {
            // neardup: second half duplicates the first half at ladder distances
            let half = (n + 1) / 2;
            for (i, row) in r.raw.iter().enumerate() {
                if i < half {
                    pts.push(row.iter().map(|&v| (v % 129) as f64 / 8.0).collect());
                } else {
                    let src = pts[i - half].clone();
                    let step = NEARDUP_LADDER[(row[0].unsigned_abs() as usize) % NEARDUP_LADDER.len()];
                    let axis = (row[dim - 1].unsigned_abs() as usize) % (dim + 1);
                    let mut p = src;
                    if axis == dim {
                        for c in p.iter_mut() {
                            *c += step / (dim as f64).sqrt();
                        }
                    } else {
                        p[axis] += if row[0] < 0 { -step } else { step };
                    }
                    if step == 0.0 && row[0] < 0 {
                        // +0.0 / -0.0 variant
                        for c in p.iter_mut() {
                            if *c == 0.0 {
                                *c = -0.0;
                            }
                        }
                    }
                    pts.push(p);
                }
            }
        }
        6 => {
            // scaled: general or grid times 2^k
            let k = (r.aux[0] as i32 % 121) - 60;
            let grid = r.aux[1] % 2 == 0;
            for row in &r.raw {
                pts.push(row.iter().map(|&v| {
                    let b = if grid { v.rem_euclid(5) as f64 } else { (v % 1025) as f64 / 16.0 };
                    b * 2f64.powi(k)
                }).collect());
            }
        }
        _ => {
            // fine: finer dyadic grid k/1024 in [-4,4] (exact squares still representable)
            for row in &r.raw {
                pts.push(row.iter().map(|&v| (v % 4097) as f64 / 1024.0).collect());
            }
        }
    }
    PointSet { family: FAMILIES[fam].to_string(), dim, pts }
}

/// weights: which families to draw from
pub fn point_set_from(dim: usize, nmin: usize, nmax: usize, families: &'static [u8]) -> BoxedStrategy<PointSet> {
    let fam = proptest::sample::select(families);
    (fam, nmin..=nmax, any::<[u8; 4]>())
        .prop_flat_map(move |(family, n, aux)| {
            proptest::collection::vec(proptest::collection::vec(-4096i32..=4096, dim), n).prop_map(move |raw| build(dim, &Recipe { family, raw, aux }))
        })
        .boxed()
}

pub const ALL_FAMILIES: &[u8] = &[0, 0, 1, 1, 2, 3, 4, 5, 6, 7];
pub const EXACT_FAMILIES: &[u8] = &[0, 0, 1, 1, 2, 3, 7];
pub const GENERAL_FAMILIES: &[u8] = &[0, 7, 0];

pub fn point_set(dim: usize, nmin: usize, nmax: usize) -> BoxedStrategy<PointSet> {
    point_set_from(dim, nmin, nmax, ALL_FAMILIES)
}

/// Maximum useful input sizes per dimension (measured library behaviour, see DESIGN §2.5)
pub fn max_n(dim: usize, thorough: bool) -> usize {
    let q = match dim {
        2 => 40,
        3 => 24,
        4 => 12,
        _ => 11,
    };
    if thorough {
        q * 3 / 2
    } else {
        q
    }
}

/// v4 UUID from 16 generated bytes
pub fn uuid_v4(bytes: [u8; 16]) -> uuid::Uuid {
    uuid::Builder::from_random_bytes(bytes).into_uuid()
}

/// deterministic distinct v4 UUIDs for a case: derived from an index and a salt
pub fn uuid_for(salt: u64, i: usize) -> uuid::Uuid {
    let a = crate::driver::ctx::mix_seed(&[salt, i as u64, 0x5eed]);
    let b = crate::driver::ctx::mix_seed(&[salt, i as u64, 0xfeed]);
    let mut bytes = [0u8; 16];
    bytes[..8].copy_from_slice(&a.to_le_bytes());
    bytes[8..].copy_from_slice(&b.to_le_bytes());
    uuid_v4(bytes)
}
