//! Hand-written decoders from a byte string to the generated types of `gen::history` /
//! `gen::points` (for the coverage-guided libFuzzer targets).  They produce exactly the value
//! domains of the proptest strategies (same ranges, same shapes), but as a *local* function of the
//! bytes: flipping one byte changes one choice, which is what lets coverage feedback work.
//! (proptest's own pass-through RNG is unusable for this: every `prop_oneof!` halves the remaining
//! stream, and rand 0.9's range sampling never returns on the zeros that follow exhaustion.)

use super::history::{Op, PointSpec, Start, UuidSpec};
use super::points::{build, Recipe};

pub struct Cur<'a> {
    d: &'a [u8],
    i: usize,
}

impl<'a> Cur<'a> {
    pub fn new(d: &'a [u8]) -> Self {
        Cur { d, i: 0 }
    }
    pub fn exhausted(&self) -> bool {
        self.i >= self.d.len()
    }
    pub fn u8(&mut self) -> u8 {
        let v = self.d.get(self.i).copied().unwrap_or(0);
        self.i += 1;
        v
    }
    pub fn u16(&mut self) -> u16 {
        u16::from_le_bytes([self.u8(), self.u8()])
    }
    pub fn u64(&mut self) -> u64 {
        let mut b = [0u8; 8];
        for x in b.iter_mut() {
            *x = self.u8();
        }
        u64::from_le_bytes(b)
    }
    pub fn bool(&mut self) -> bool {
        self.u8() & 1 == 1
    }
    /// value in 0..n (n >= 1)
    pub fn below(&mut self, n: u32) -> u32 {
        if n <= 256 {
            self.u8() as u32 % n
        } else {
            self.u16() as u32 % n
        }
    }
    /// value in lo..=hi
    pub fn range_i(&mut self, lo: i32, hi: i32) -> i32 {
        lo + self.below((hi - lo + 1) as u32) as i32
    }
    /// selector: mostly ordinary, the top 1/256 adversarial (as `history::sel`)
    pub fn sel(&mut self) -> u16 {
        self.u16()
    }
}

pub fn point_spec(c: &mut Cur, dim: usize, extreme: bool) -> PointSpec {
    let n = if extreme { 12 } else { 9 };
    match c.below(n) {
        0 => PointSpec::Grid((0..dim).map(|_| c.range_i(-24, 24) as i16).collect()),
        1 => PointSpec::AtVertex(c.u16()),
        2 => PointSpec::NearVertex(c.u16(), c.below(7) as u8, c.below(8) as u8, c.bool()),
        3 => PointSpec::EdgeMid(c.u16(), c.u16()),
        4 => PointSpec::CellBary(c.u16(), (0..=dim).map(|_| c.below(8) as u8).collect()),
        5 => PointSpec::BeyondHull(c.u16(), c.below(8) as u8),
        6 => PointSpec::OnHullPlane(c.u16()),
        7 => PointSpec::Former(c.u16()),
        8 => PointSpec::AffineComb((0..dim).map(|_| c.range_i(-3, 3) as i8).collect()),
        9 => PointSpec::Grid((0..dim).map(|_| c.range_i(-24, 24) as i16).collect()),
        10 => PointSpec::Extreme(c.range_i(-120, 120) as i8, c.range_i(-50, 50) as i16),
        _ => PointSpec::NonFinite(c.below(3) as u8, c.below(5) as u8),
    }
}

pub fn uuid_spec(c: &mut Cur, adversarial: bool) -> UuidSpec {
    if !adversarial {
        return UuidSpec::Fresh;
    }
    match c.below(10) {
        8 => UuidSpec::Live(c.u16()),
        9 => UuidSpec::Dead(c.u16()),
        _ => UuidSpec::Fresh,
    }
}

/// One operation; `classes` is a bit mask of the families allowed:
/// 1 insert, 2 remove, 4 flips, 8 repair, 16 setters, 32 clone / touch / snapshot / restore.
pub fn op(c: &mut Cur, dim: usize, classes: u8, adversarial_uuid: bool, extreme: bool) -> Op {
    let allowed: Vec<u8> = (0..6).filter(|b| classes & (1 << b) != 0).collect();
    let fam = allowed[c.below(allowed.len().max(1) as u32) as usize % allowed.len().max(1)];
    let facet = |c: &mut Cur| -> u8 {
        let v = c.u8();
        if v >= 250 {
            v
        } else {
            v % 6
        }
    };
    match fam {
        0 => Op::Insert { p: point_spec(c, dim, extreme), stats: c.bool(), uuid: uuid_spec(c, adversarial_uuid) },
        1 => Op::Remove { v: c.u16(), unknown: c.below(10) == 0 },
        2 => match c.below(6) {
            0 => Op::FlipK1Insert { cell: c.sel(), w: (0..=dim).map(|_| c.below(8) as u8).collect(), uuid: uuid_spec(c, adversarial_uuid) },
            1 => Op::FlipK1Remove { v: c.sel() },
            2 => Op::FlipK2 { cell: c.sel(), facet: facet(c) },
            3 => Op::FlipK3 { cell: c.sel(), a: facet(c), b: c.below(6) as u8 },
            4 => Op::FlipK2Inv { a: c.sel(), b: c.sel() },
            _ => Op::FlipK3Inv { a: c.sel(), b: c.sel(), c: c.sel() },
        },
        3 => {
            if c.below(3) < 2 {
                Op::Repair
            } else {
                Op::RepairAdvanced { shuffle: if c.bool() { Some(c.u64()) } else { None }, perturb: if c.bool() { Some(c.u64()) } else { None } }
            }
        }
        4 => match c.below(4) {
            0 => Op::SetValidation(c.below(4) as u8),
            1 => Op::SetGuarantee(c.below(3) as u8),
            2 => Op::SetRepairPolicy(c.below(4) as u8),
            _ => Op::SetCheckPolicy(c.below(3) as u8),
        },
        _ => match c.below(4) {
            0 => Op::CloneSwap,
            1 => Op::TouchMut,
            2 => Op::Snapshot,
            _ => Op::Restore,
        },
    }
}

pub fn ops(c: &mut Cur, dim: usize, max: usize, classes: u8, adversarial_uuid: bool, extreme: bool) -> Vec<Op> {
    let n = 1 + c.below(max as u32) as usize;
    (0..n).map(|_| op(c, dim, classes, adversarial_uuid, extreme)).collect()
}

pub fn start(c: &mut Cur, dim: usize, nmax: usize, allow_empty: bool, families: &[u8]) -> Start {
    let opt = |c: &mut Cur, n: u32| -> Option<u8> {
        if c.bool() {
            Some(c.below(n) as u8)
        } else {
            None
        }
    };
    let empty = allow_empty && c.below(4) == 0;
    let points = if empty {
        Vec::new()
    } else {
        let family = families[c.below(families.len() as u32) as usize];
        let n = dim + 1 + c.below((nmax - dim) as u32) as usize;
        let aux = [c.u8(), c.u8(), c.u8(), c.u8()];
        let raw: Vec<Vec<i32>> = (0..n).map(|_| (0..dim).map(|_| c.range_i(-4096, 4096)).collect()).collect();
        build(dim, &Recipe { family, raw, aux }).pts
    };
    let guarantee = c.below(3) as u8;
    let validation = opt(c, 4);
    let repair = opt(c, 4);
    let check = opt(c, 3);
    let scale_pow = match c.below(10) {
        6 => -2,
        7 => -4,
        8 => -6,
        9 => 3,
        _ => 0,
    };
    Start { points, guarantee, validation, repair, check, scale_pow }
}
