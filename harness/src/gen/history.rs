//! Operation histories: generated `Vec<Op>` interpreted against a live triangulation.  Handles are
//! selectors (u16) resolved monotonically against the *current* state so that shrinking works and
//! every random choice stays inside proptest.

use crate::gen::points::{uuid_for, NEARDUP_LADDER};
use crate::gen::world::{mk_vertex, pick, Dt, Kern};
use crate::oracle::snap::{ckey_from_u64, vkey_from_u64, Snap};
use delaunay::core::algorithms::flips::{DelaunayRepairError, FlipError, FlipInfo, RidgeHandle, TriangleHandle};
use delaunay::core::delaunay_triangulation::{DelaunayCheckPolicy, DelaunayRepairHeuristicConfig, DelaunayRepairPolicy};
use delaunay::core::edge::EdgeKey;
use delaunay::core::facet::FacetHandle;
use delaunay::core::operations::InsertionOutcome;
use delaunay::core::triangulation::{TopologyGuarantee, ValidationPolicy};
use delaunay::triangulation::flips::BistellarFlips;
use proptest::prelude::*;
use serde::{Deserialize, Serialize};
use std::collections::BTreeMap;
use std::num::NonZeroUsize;

#[derive(Debug, Clone, Serialize, Deserialize, PartialEq)]
pub enum PointSpec {
    /// small dyadic grid point: ints / 4
    Grid(Vec<i16>),
    AtVertex(u16),
    /// vertex + ladder step along an axis (axis == D means the diagonal)
    NearVertex(u16, u8, u8, bool),
    EdgeMid(u16, u16),
    /// barycentre of a cell with small integer weights
    CellBary(u16, Vec<u8>),
    /// beyond hull facet: centroid pushed outwards by t/4 of the distance to the opposite vertex
    BeyondHull(u16, u8),
    /// on the hyperplane of a hull facet but outside the facet
    OnHullPlane(u16),
    /// former position of a removed vertex
    Former(u16),
    /// far away / extreme magnitude
    Extreme(i8, i16),
    /// a non-finite coordinate (NaN / +inf / -inf) on one axis of an otherwise ordinary grid point
    NonFinite(u8, u8),
    /// integer affine combination (weights summing to 1) of the first <= D vertices: lies in their
    /// affine hull, i.e. a collinear/coplanar bootstrap prefix or a point on a facet hyperplane
    AffineComb(Vec<i8>),
}

#[derive(Debug, Clone, Default, Serialize, Deserialize, PartialEq)]
pub enum UuidSpec {
    #[default]
    Fresh,
    /// reuse the UUID of a live vertex
    Live(u16),
    /// reuse the UUID of a removed vertex
    Dead(u16),
}

#[derive(Debug, Clone, Serialize, Deserialize, PartialEq)]
pub enum Op {
    Insert { p: PointSpec, stats: bool, uuid: UuidSpec },
    Remove { v: u16, unknown: bool },
    FlipK1Insert {
        cell: u16,
        w: Vec<u8>,
        /// UUID of the vertex handed to the flip (older replay files have none: fresh)
        #[serde(default)]
        uuid: UuidSpec,
    },
    FlipK1Remove { v: u16 },
    FlipK2 { cell: u16, facet: u8 },
    FlipK3 { cell: u16, a: u8, b: u8 },
    FlipK2Inv { a: u16, b: u16 },
    FlipK3Inv { a: u16, b: u16, c: u16 },
    Repair,
    RepairAdvanced { shuffle: Option<u64>, perturb: Option<u64> },
    SetValidation(u8),
    SetGuarantee(u8),
    SetRepairPolicy(u8),
    SetCheckPolicy(u8),
    CloneSwap,
    /// call as_triangulation_mut() (documented to invalidate caches) without changing anything
    TouchMut,
    /// keep a clone of the current triangulation aside
    Snapshot,
    /// continue on the clone kept by the last Snapshot (if any)
    Restore,
    /// serialise the Tds to JSON, load it again and continue on `from_tds_with_topology_guarantee(loaded)`
    /// (the documented path for custom kernels / data); policies other than the guarantee restart at their defaults
    SerdeSwap,
}

pub fn validation_policy(k: u8) -> ValidationPolicy {
    match k % 4 {
        0 => ValidationPolicy::Never,
        1 => ValidationPolicy::OnSuspicion,
        2 => ValidationPolicy::Always,
        _ => ValidationPolicy::DebugOnly,
    }
}
pub fn guarantee(k: u8) -> TopologyGuarantee {
    match k % 3 {
        0 => TopologyGuarantee::Pseudomanifold,
        1 => TopologyGuarantee::PLManifold,
        _ => TopologyGuarantee::PLManifoldStrict,
    }
}
pub fn repair_policy(k: u8) -> DelaunayRepairPolicy {
    match k % 4 {
        0 => DelaunayRepairPolicy::Never,
        1 => DelaunayRepairPolicy::EveryInsertion,
        2 => DelaunayRepairPolicy::EveryN(NonZeroUsize::new(2).unwrap()),
        _ => DelaunayRepairPolicy::EveryN(NonZeroUsize::new(3).unwrap()),
    }
}
pub fn check_policy(k: u8) -> DelaunayCheckPolicy {
    match k % 3 {
        0 => DelaunayCheckPolicy::EndOnly,
        1 => DelaunayCheckPolicy::EveryN(NonZeroUsize::new(1).unwrap()),
        _ => DelaunayCheckPolicy::EveryN(NonZeroUsize::new(2).unwrap()),
    }
}

pub fn insertion_error_class(e: &delaunay::core::algorithms::incremental_insertion::InsertionError) -> &'static str {
    use delaunay::core::algorithms::incremental_insertion::InsertionError as E;
    match e {
        E::DuplicateCoordinates { .. } => "DuplicateCoordinates",
        E::DuplicateUuid { .. } => "DuplicateUuid",
        other => {
            // the duplicate errors also arrive wrapped (e.g. Construction(Tds(DuplicateUuid { .. })))
            let d = format!("{other:?}");
            if d.contains("DuplicateUuid") {
                "DuplicateUuid"
            } else if d.contains("DuplicateCoordinates") {
                "DuplicateCoordinates"
            } else {
                "other"
            }
        }
    }
}

#[derive(Debug, Clone)]
pub struct FlipSummary {
    pub k: usize,
    pub inverse: bool,
    pub removed_cells: Vec<u64>,
    pub new_cells: Vec<u64>,
    pub removed_face: Vec<u64>,
    pub inserted_face: Vec<u64>,
}

#[derive(Debug, Clone)]
pub enum Outcome {
    Inserted { key: u64, uuid: u128, coords: Vec<f64>, data: Option<i64>, attempts: usize },
    Skipped { error: String, duplicate: bool, attempts: usize, class: &'static str },
    InsertErr { error: String, class: &'static str },
    Removed { cells: usize, uuid: u128, known: bool },
    RemoveErr { error: String },
    Flip(FlipSummary),
    FlipErr { error: String },
    Repaired { flips: usize, heuristic: bool },
    RepairErr { error: String, invalid_topology: bool },
    Set,
    /// the triangulation was replaced by an earlier snapshot
    Restored,
    Reloaded,
    /// a policy setter panicked (debug_assert!(false) in the debug-assertion profile): a C19 matter
    SetPanicked { site: String, message: String },
    Noop,
}

impl Outcome {
    pub fn label(&self) -> &'static str {
        match self {
            Outcome::Inserted { .. } => "Inserted",
            Outcome::Skipped { .. } => "Skipped",
            Outcome::InsertErr { .. } => "InsertErr",
            Outcome::Removed { .. } => "Removed",
            Outcome::RemoveErr { .. } => "RemoveErr",
            Outcome::Flip(_) => "FlipOk",
            Outcome::FlipErr { .. } => "FlipErr",
            Outcome::Repaired { .. } => "Repaired",
            Outcome::RepairErr { .. } => "RepairErr",
            Outcome::Set => "Set",
            Outcome::Restored => "Restored",
            Outcome::Reloaded => "Reloaded",
            Outcome::SetPanicked { .. } => "SetPanicked",
            Outcome::Noop => "Noop",
        }
    }
    /// did the call report failure / skip (state must be unchanged per C03)?
    pub fn is_failure(&self) -> bool {
        matches!(self, Outcome::Skipped { .. } | Outcome::InsertErr { .. } | Outcome::RemoveErr { .. } | Outcome::FlipErr { .. } | Outcome::RepairErr { .. })
    }
}

/// What the caller asked for, resolved to concrete values (for oracles and messages).
#[derive(Debug, Clone, Default)]
pub struct Resolved {
    pub desc: String,
    pub coords: Option<Vec<f64>>,
    pub uuid: Option<u128>,
    pub data: Option<i64>,
    pub target_vertex: Option<u64>,
    pub adversarial: bool,
}

pub struct World<K: Kern<D>, const D: usize> {
    pub dt: Dt<K, i32, D>,
    pub salt: u64,
    pub next_id: usize,
    /// uuid -> (coords as offered, data) of vertices removed so far
    pub removed: Vec<(u128, Vec<f64>)>,
    /// keys of cells/vertices that existed at some point and may be stale now
    pub stale_cells: Vec<u64>,
    pub stale_vertices: Vec<u64>,
    pub saved: Option<Dt<K, i32, D>>,
}

fn flip_summary<const D: usize>(info: &FlipInfo<D>, k: usize, inverse: bool) -> FlipSummary {
    use crate::oracle::snap::{ckey_u64, vkey_u64};
    FlipSummary {
        k,
        inverse,
        removed_cells: info.removed_cells.iter().map(|&c| ckey_u64(c)).collect(),
        new_cells: info.new_cells.iter().map(|&c| ckey_u64(c)).collect(),
        removed_face: info.removed_face_vertices.iter().map(|&v| vkey_u64(v)).collect(),
        inserted_face: info.inserted_face_vertices.iter().map(|&v| vkey_u64(v)).collect(),
    }
}

impl<K: Kern<D>, const D: usize> World<K, D> {
    pub fn new(dt: Dt<K, i32, D>, salt: u64, next_id: usize) -> Self {
        World { dt, salt, next_id, removed: Vec::new(), stale_cells: Vec::new(), stale_vertices: Vec::new(), saved: None }
    }

    pub fn snap(&self) -> Snap {
        Snap::of(self.dt.tds())
    }

    /// An independent copy of the world (triangulation cloned through the library's `Clone`).
    pub fn fork(&self) -> Self {
        World {
            dt: self.dt.clone(),
            salt: self.salt,
            next_id: self.next_id,
            removed: self.removed.clone(),
            stale_cells: self.stale_cells.clone(),
            stale_vertices: self.stale_vertices.clone(),
            saved: None,
        }
    }

    /// Insert into a clone (the world itself is untouched) and report the outcome.
    pub fn probe_insert(&self, coords: &[f64], uuid: u128, stats: bool) -> Outcome {
        let mut c = self.dt.clone();
        if std::env::var_os("DVCHECK_DROP_CACHES").is_some() {
            let _ = c.as_triangulation_mut();
        }
        let v = mk_vertex::<i32, D>(coords, uuid::Uuid::from_u128(uuid), Some(-7));
        if stats {
            match c.insert_with_statistics(v) {
                Ok((InsertionOutcome::Inserted { vertex_key, .. }, st)) => Outcome::Inserted { key: crate::oracle::snap::vkey_u64(vertex_key), uuid, coords: coords.to_vec(), data: Some(-7), attempts: st.attempts },
                Ok((InsertionOutcome::Skipped { error }, st)) => Outcome::Skipped { class: insertion_error_class(&error), error: error.to_string(), duplicate: st.skipped_duplicate(), attempts: st.attempts },
                Err(e) => Outcome::InsertErr { class: insertion_error_class(&e), error: format!("{e:?}") },
            }
        } else {
            match c.insert(v) {
                Ok(k) => Outcome::Inserted { key: crate::oracle::snap::vkey_u64(k), uuid, coords: coords.to_vec(), data: Some(-7), attempts: 0 },
                Err(e) => Outcome::InsertErr { class: insertion_error_class(&e), error: format!("{e:?}") },
            }
        }
    }

    pub fn policies(&self) -> String {
        format!(
            "{:?}/{:?}/{:?}/{:?}/{:?}",
            self.dt.validation_policy(),
            self.dt.topology_guarantee(),
            self.dt.delaunay_repair_policy(),
            self.dt.delaunay_check_policy(),
            self.dt.global_topology()
        )
    }

    pub fn fingerprint(&self, s: &Snap) -> crate::oracle::fingerprint::Fingerprint {
        crate::oracle::fingerprint::fingerprint(s, &self.policies(), false)
    }

    pub fn resolve_point(&self, s: &Snap, p: &PointSpec) -> Vec<f64> {
        let nv = s.verts.len();
        let vcoord = |sel: u16| -> Vec<f64> {
            if nv == 0 {
                vec![0.0; D]
            } else {
                s.verts[pick(sel, nv)].coords.clone()
            }
        };
        match p {
            PointSpec::Grid(v) => (0..D).map(|j| *v.get(j).unwrap_or(&0) as f64 / 4.0).collect(),
            PointSpec::AtVertex(i) => vcoord(*i),
            PointSpec::NearVertex(i, step, axis, neg) => {
                let mut c = vcoord(*i);
                let st = NEARDUP_LADDER[*step as usize % NEARDUP_LADDER.len()] * if *neg { -1.0 } else { 1.0 };
                let ax = *axis as usize % (D + 1);
                if ax == D {
                    for x in c.iter_mut() {
                        *x += st / (D as f64).sqrt();
                    }
                } else {
                    c[ax] += st;
                }
                c
            }
            PointSpec::EdgeMid(a, b) => {
                let (x, y) = (vcoord(*a), vcoord(*b));
                x.iter().zip(&y).map(|(p, q)| 0.5 * (p + q)).collect()
            }
            PointSpec::CellBary(c, w) => {
                if s.cells.is_empty() {
                    return vcoord(*c);
                }
                let cell = &s.cells[pick(*c, s.cells.len())];
                let vi = s.vindex();
                let ws: Vec<f64> = (0..cell.verts.len()).map(|k| (*w.get(k).unwrap_or(&1) % 8) as f64).collect();
                let tot: f64 = ws.iter().sum::<f64>().max(1.0);
                let mut out = vec![0.0; D];
                for (k, vk) in cell.verts.iter().enumerate() {
                    if let Some(&ix) = vi.get(vk) {
                        for j in 0..D {
                            out[j] += ws[k] / tot * s.verts[ix].coords[j];
                        }
                    }
                }
                out
            }
            PointSpec::BeyondHull(f, _) | PointSpec::OnHullPlane(f) if !s.cells.is_empty() => {
                let cells = match s.cell_indices() {
                    Some(c) => c,
                    None => return vcoord(*f),
                };
                let bf = crate::oracle::delaunay::boundary_facets(&cells);
                if bf.is_empty() {
                    return vcoord(*f);
                }
                let (facet, opp) = &bf[pick(*f, bf.len())];
                let mut cen = vec![0.0; D];
                for &i in facet {
                    for j in 0..D {
                        cen[j] += s.verts[i].coords[j] / facet.len() as f64;
                    }
                }
                match p {
                    PointSpec::BeyondHull(_, t) => {
                        let tt = 1.0 + (*t % 8) as f64;
                        (0..D).map(|j| cen[j] + (cen[j] - s.verts[*opp].coords[j]) * tt / 4.0).collect()
                    }
                    _ => {
                        let v0 = &s.verts[facet[0]].coords;
                        (0..D).map(|j| 2.0 * cen[j] - v0[j] + (cen[j] - v0[j])).collect()
                    }
                }
            }
            PointSpec::BeyondHull(f, _) | PointSpec::OnHullPlane(f) => vcoord(*f),
            PointSpec::Former(i) => {
                if self.removed.is_empty() {
                    vcoord(*i)
                } else {
                    self.removed[pick(*i, self.removed.len())].1.clone()
                }
            }
            PointSpec::NonFinite(kind, axis) => {
                let mut c: Vec<f64> = (0..D).map(|j| 0.25 + j as f64).collect();
                c[*axis as usize % D] = match kind % 3 {
                    0 => f64::NAN,
                    1 => f64::INFINITY,
                    _ => f64::NEG_INFINITY,
                };
                c
            }
            PointSpec::AffineComb(w) => {
                let k = nv.min(D);
                if k == 0 {
                    return vec![0.0; D];
                }
                let mut ws: Vec<f64> = (0..k).map(|i| (*w.get(i).unwrap_or(&0) % 4) as f64).collect();
                let sum: f64 = ws.iter().sum();
                ws[0] += 1.0 - sum;
                let mut out = vec![0.0; D];
                for (i, wi) in ws.iter().enumerate() {
                    for j in 0..D {
                        out[j] += wi * s.verts[i].coords[j];
                    }
                }
                out
            }
            PointSpec::Extreme(e, m) => {
                let e = (*e as i32).clamp(-120, 120) * 8;
                (0..D).map(|j| (*m as f64 + j as f64) * 2f64.powi(e)).collect()
            }
        }
    }

    fn vertex_key(&self, s: &Snap, sel: u16) -> Option<u64> {
        if s.verts.is_empty() {
            None
        } else {
            Some(s.verts[pick(sel, s.verts.len())].key)
        }
    }

    /// cell key by selector; the top of the selector range yields adversarial (stale / forged) keys
    fn cell_key(&self, s: &Snap, sel: u16) -> (u64, bool) {
        if sel >= 0xFF00 {
            let forged = match sel & 3 {
                0 => *self.stale_cells.last().unwrap_or(&0x0000_0001_0000_0F00),
                1 => 0x0000_0001_0000_7FFF,
                2 => 0,
                _ => 0xFFFF_FFFF_FFFF_FFFF,
            };
            return (forged, true);
        }
        if s.cells.is_empty() {
            (0x0000_0001_0000_0001, true)
        } else {
            (s.cells[pick(sel, s.cells.len())].key, false)
        }
    }

    fn vkey_adv(&self, s: &Snap, sel: u16) -> (u64, bool) {
        if sel >= 0xFF00 {
            let forged = match sel & 3 {
                0 => *self.stale_vertices.last().unwrap_or(&0x0000_0001_0000_0F00),
                1 => 0x0000_0001_0000_7FFF,
                2 => 0,
                _ => 0xFFFF_FFFF_FFFF_FFFF,
            };
            return (forged, true);
        }
        match self.vertex_key(s, sel) {
            Some(k) => (k, false),
            None => (0x0000_0001_0000_0001, true),
        }
    }

    fn remember(&mut self, before: &Snap) {
        // keys alive before the op may be stale afterwards: keep a few for adversarial handles
        if let Some(c) = before.cells.last() {
            self.stale_cells.push(c.key);
        }
        if let Some(v) = before.verts.last() {
            self.stale_vertices.push(v.key);
        }
        if self.stale_cells.len() > 8 {
            self.stale_cells.remove(0);
        }
        if self.stale_vertices.len() > 8 {
            self.stale_vertices.remove(0);
        }
    }

    /// Execute one operation.  `before` must be a snapshot of the current state.
    pub fn apply(&mut self, before: &Snap, op: &Op) -> (Resolved, Outcome) {
        let mut r = Resolved::default();
        let out = match op {
            Op::Insert { p, stats, uuid } => {
                let coords = self.resolve_point(before, p);
                let (u, adversarial) = match uuid {
                    UuidSpec::Fresh => {
                        self.next_id += 1;
                        (uuid_for(self.salt, self.next_id).as_u128(), false)
                    }
                    UuidSpec::Live(i) => match before.verts.is_empty() {
                        true => {
                            self.next_id += 1;
                            (uuid_for(self.salt, self.next_id).as_u128(), false)
                        }
                        false => (before.verts[pick(*i, before.verts.len())].uuid, true),
                    },
                    UuidSpec::Dead(i) => match self.removed.is_empty() {
                        true => {
                            self.next_id += 1;
                            (uuid_for(self.salt, self.next_id).as_u128(), false)
                        }
                        false => (self.removed[pick(*i, self.removed.len())].0, false),
                    },
                };
                let data = Some((self.next_id as i64) * 3 + 1);
                r = Resolved { desc: format!("insert {:?} {:?} stats={}", p, coords, stats), coords: Some(coords.clone()), uuid: Some(u), data, target_vertex: None, adversarial };
                let v = mk_vertex::<i32, D>(&coords, uuid::Uuid::from_u128(u), data);
                self.remember(before);
                if *stats {
                    match self.dt.insert_with_statistics(v) {
                        Ok((InsertionOutcome::Inserted { vertex_key, .. }, st)) => {
                            Outcome::Inserted { key: crate::oracle::snap::vkey_u64(vertex_key), uuid: u, coords, data, attempts: st.attempts }
                        }
                        Ok((InsertionOutcome::Skipped { error }, st)) => Outcome::Skipped { class: insertion_error_class(&error), error: error.to_string(), duplicate: st.skipped_duplicate(), attempts: st.attempts },
                        Err(e) => Outcome::InsertErr { class: insertion_error_class(&e), error: format!("{e:?}") },
                    }
                } else {
                    match self.dt.insert(v) {
                        Ok(k) => Outcome::Inserted { key: crate::oracle::snap::vkey_u64(k), uuid: u, coords, data, attempts: 0 },
                        Err(e) => Outcome::InsertErr { class: insertion_error_class(&e), error: format!("{e:?}") },
                    }
                }
            }
            Op::Remove { v, unknown } => {
                let target = if *unknown || before.verts.is_empty() {
                    None
                } else {
                    Some(before.verts[pick(*v, before.verts.len())].clone())
                };
                self.remember(before);
                match target {
                    None => {
                        // a vertex that is not in the triangulation: fresh uuid or an already removed one
                        let (u, c) = if !self.removed.is_empty() && *v % 2 == 0 {
                            let e = &self.removed[pick(*v, self.removed.len())];
                            (e.0, e.1.clone())
                        } else {
                            self.next_id += 1;
                            (uuid_for(self.salt ^ 0xdead, self.next_id).as_u128(), vec![0.25; D])
                        };
                        // the uuid may have been re-inserted meanwhile: then it is a known vertex
                        let known = before.verts.iter().any(|x| x.uuid == u);
                        r = Resolved { desc: format!("remove unknown vertex uuid {:032x}", u), uuid: Some(u), adversarial: !known, ..Default::default() };
                        let vert = mk_vertex::<i32, D>(&c, uuid::Uuid::from_u128(u), None);
                        match self.dt.remove_vertex(&vert) {
                            Ok(n) => Outcome::Removed { cells: n, uuid: u, known },
                            Err(e) => Outcome::RemoveErr { error: e.to_string() },
                        }
                    }
                    Some(t) => {
                        r = Resolved { desc: format!("remove vertex {:#x} at {:?}", t.key, t.coords), uuid: Some(t.uuid), coords: Some(t.coords.clone()), target_vertex: Some(t.key), ..Default::default() };
                        let vert = mk_vertex::<i32, D>(&t.coords, uuid::Uuid::from_u128(t.uuid), t.data);
                        match self.dt.remove_vertex(&vert) {
                            Ok(n) => {
                                self.removed.push((t.uuid, t.coords.clone()));
                                Outcome::Removed { cells: n, uuid: t.uuid, known: true }
                            }
                            Err(e) => Outcome::RemoveErr { error: e.to_string() },
                        }
                    }
                }
            }
            Op::FlipK1Insert { cell, w, uuid } => {
                let (ck, adv) = self.cell_key(before, *cell);
                let mut coords = if adv { vec![0.125; D] } else { self.resolve_point(before, &PointSpec::CellBary(*cell, w.clone())) };
                // optional trailing entries (facet index, step): place the vertex OUTSIDE the cell, beyond the
                // facet opposite vertex i, at facet centroid + step/4 x (centroid - vertex i).  The Edit API is
                // combinatorial and accepts such a split; C07's structural clauses must hold for it too.
                if !adv && w.len() >= D + 3 && !before.cells.is_empty() {
                    let c = &before.cells[pick(*cell, before.cells.len())];
                    let vi = before.vindex();
                    let pts: Vec<&Vec<f64>> = c.verts.iter().filter_map(|vk| vi.get(vk).map(|&ix| &before.verts[ix].coords)).collect();
                    if pts.len() == D + 1 {
                        let i = w[D + 1] as usize % (D + 1);
                        let t = 1.0 + (w[D + 2] % 8) as f64;
                        coords = (0..D)
                            .map(|j| {
                                let cen = pts.iter().enumerate().filter(|(k, _)| *k != i).map(|(_, p)| p[j]).sum::<f64>() / D as f64;
                                cen + t / 4.0 * (cen - pts[i][j])
                            })
                            .collect();
                    }
                }
                self.next_id += 1;
                let u = match uuid {
                    UuidSpec::Live(i) if !before.verts.is_empty() => before.verts[pick(*i, before.verts.len())].uuid,
                    UuidSpec::Dead(i) if !self.removed.is_empty() => self.removed[pick(*i, self.removed.len())].0,
                    _ => uuid_for(self.salt, self.next_id).as_u128(),
                };
                let data = Some((self.next_id as i64) * 3 + 1);
                r = Resolved { desc: format!("flip_k1_insert cell {:#x} at {:?}", ck, coords), coords: Some(coords.clone()), uuid: Some(u), data, adversarial: adv, ..Default::default() };
                let v = mk_vertex::<i32, D>(&coords, uuid::Uuid::from_u128(u), data);
                self.remember(before);
                match self.dt.flip_k1_insert(ckey_from_u64(ck), v) {
                    Ok(i) => Outcome::Flip(flip_summary(&i, 1, false)),
                    Err(e) => Outcome::FlipErr { error: e.to_string() },
                }
            }
            Op::FlipK1Remove { v } => {
                let (vk, adv) = self.vkey_adv(before, *v);
                let tv = before.verts.iter().find(|x| x.key == vk).cloned();
                r = Resolved { desc: format!("flip_k1_remove vertex {:#x}", vk), target_vertex: Some(vk), uuid: tv.as_ref().map(|t| t.uuid), coords: tv.as_ref().map(|t| t.coords.clone()), adversarial: adv, ..Default::default() };
                self.remember(before);
                match self.dt.flip_k1_remove(vkey_from_u64(vk)) {
                    Ok(i) => {
                        if let Some(t) = tv {
                            self.removed.push((t.uuid, t.coords));
                        }
                        Outcome::Flip(flip_summary(&i, 1, true))
                    }
                    Err(e) => Outcome::FlipErr { error: e.to_string() },
                }
            }
            Op::FlipK2 { cell, facet } => {
                let (ck, adv) = self.cell_key(before, *cell);
                let fi = if *facet >= 250 { *facet } else { *facet % (D as u8 + 1) };
                r = Resolved { desc: format!("flip_k2 cell {:#x} facet {}", ck, fi), adversarial: adv || fi as usize > D, ..Default::default() };
                self.remember(before);
                match self.dt.flip_k2(FacetHandle::new(ckey_from_u64(ck), fi)) {
                    Ok(i) => Outcome::Flip(flip_summary(&i, 2, false)),
                    Err(e) => Outcome::FlipErr { error: e.to_string() },
                }
            }
            Op::FlipK3 { cell, a, b } => {
                let (ck, adv) = self.cell_key(before, *cell);
                let fa = if *a >= 250 { *a } else { *a % (D as u8 + 1) };
                let fb = if *b >= 250 { *b } else { *b % (D as u8 + 1) };
                r = Resolved { desc: format!("flip_k3 cell {:#x} omit {} {}", ck, fa, fb), adversarial: adv || fa as usize > D || fb as usize > D || fa == fb, ..Default::default() };
                self.remember(before);
                match self.dt.flip_k3(RidgeHandle::new(ckey_from_u64(ck), fa, fb)) {
                    Ok(i) => Outcome::Flip(flip_summary(&i, 3, false)),
                    Err(e) => Outcome::FlipErr { error: e.to_string() },
                }
            }
            Op::FlipK2Inv { a, b } => {
                let (ka, adva) = self.vkey_adv(before, *a);
                let (kb, advb) = self.vkey_adv(before, *b);
                r = Resolved { desc: format!("flip_k2_inverse_from_edge {:#x} {:#x}", ka, kb), adversarial: adva || advb || ka == kb, ..Default::default() };
                self.remember(before);
                match self.dt.flip_k2_inverse_from_edge(EdgeKey::new(vkey_from_u64(ka), vkey_from_u64(kb))) {
                    Ok(i) => Outcome::Flip(flip_summary(&i, 2, true)),
                    Err(e) => Outcome::FlipErr { error: e.to_string() },
                }
            }
            Op::FlipK3Inv { a, b, c } => {
                let (ka, adva) = self.vkey_adv(before, *a);
                let (kb, advb) = self.vkey_adv(before, *b);
                let (kc, advc) = self.vkey_adv(before, *c);
                r = Resolved { desc: format!("flip_k3_inverse_from_triangle {:#x} {:#x} {:#x}", ka, kb, kc), adversarial: adva || advb || advc, ..Default::default() };
                self.remember(before);
                match self.dt.flip_k3_inverse_from_triangle(TriangleHandle::new(vkey_from_u64(ka), vkey_from_u64(kb), vkey_from_u64(kc))) {
                    Ok(i) => Outcome::Flip(flip_summary(&i, 3, true)),
                    Err(e) => Outcome::FlipErr { error: e.to_string() },
                }
            }
            Op::Repair => {
                r.desc = "repair_delaunay_with_flips".into();
                self.remember(before);
                match self.dt.repair_delaunay_with_flips() {
                    Ok(st) => Outcome::Repaired { flips: st.flips_performed, heuristic: false },
                    Err(e) => Outcome::RepairErr { invalid_topology: matches!(e, DelaunayRepairError::InvalidTopology { .. }), error: e.to_string() },
                }
            }
            Op::RepairAdvanced { shuffle, perturb } => {
                r.desc = format!("repair_delaunay_with_flips_advanced shuffle={shuffle:?} perturb={perturb:?}");
                self.remember(before);
                match self.dt.repair_delaunay_with_flips_advanced(DelaunayRepairHeuristicConfig { shuffle_seed: *shuffle, perturbation_seed: *perturb }) {
                    Ok(o) => Outcome::Repaired { flips: o.stats.flips_performed, heuristic: o.used_heuristic() },
                    Err(e) => Outcome::RepairErr { invalid_topology: matches!(e, DelaunayRepairError::InvalidTopology { .. }), error: e.to_string() },
                }
            }
            Op::SetValidation(k) => {
                r.desc = format!("set_validation_policy({:?})", validation_policy(*k));
                let pol = validation_policy(*k);
                match crate::driver::ctx::guarded(|| self.dt.set_validation_policy(pol)) {
                    Ok(()) => Outcome::Set,
                    Err((loc, msg)) => Outcome::SetPanicked { site: "set_validation_policy".into(), message: format!("{msg} (at {})", crate::driver::ctx::panic_site(&loc)) },
                }
            }
            Op::SetGuarantee(k) => {
                r.desc = format!("set_topology_guarantee({:?})", guarantee(*k));
                let g = guarantee(*k);
                match crate::driver::ctx::guarded(|| self.dt.set_topology_guarantee(g)) {
                    Ok(()) => Outcome::Set,
                    Err((loc, msg)) => Outcome::SetPanicked { site: "set_topology_guarantee".into(), message: format!("{msg} (at {})", crate::driver::ctx::panic_site(&loc)) },
                }
            }
            Op::SetRepairPolicy(k) => {
                r.desc = format!("set_delaunay_repair_policy({:?})", repair_policy(*k));
                self.dt.set_delaunay_repair_policy(repair_policy(*k));
                Outcome::Set
            }
            Op::SetCheckPolicy(k) => {
                r.desc = format!("set_delaunay_check_policy({:?})", check_policy(*k));
                self.dt.set_delaunay_check_policy(check_policy(*k));
                Outcome::Set
            }
            Op::TouchMut => {
                r.desc = "as_triangulation_mut() (no change)".into();
                let _ = self.dt.as_triangulation_mut();
                Outcome::Noop
            }
            Op::Snapshot => {
                r.desc = format!("snapshot (clone kept aside) at generation {}", self.dt.tds().generation());
                self.saved = Some(self.dt.clone());
                Outcome::Noop
            }
            Op::Restore => {
                r.desc = "restore the snapshot".into();
                match self.saved.clone() {
                    Some(d) => {
                        self.remember(before);
                        self.dt = d;
                        Outcome::Restored
                    }
                    None => Outcome::Noop,
                }
            }
            Op::SerdeSwap => {
                r.desc = "serialise the Tds, load it, continue on from_tds(loaded)".into();
                let loaded = serde_json::to_string(self.dt.tds()).ok().and_then(|t| serde_json::from_str::<delaunay::core::triangulation_data_structure::Tds<f64, i32, (), D>>(&t).ok());
                match loaded {
                    Some(tds) => {
                        self.remember(before);
                        let g = self.dt.topology_guarantee();
                        self.dt = delaunay::core::delaunay_triangulation::DelaunayTriangulation::from_tds_with_topology_guarantee(tds, K::make(), g);
                        Outcome::Reloaded
                    }
                    // a state the deserialiser refuses (C13 judges that) is simply kept
                    None => Outcome::Noop,
                }
            }
            Op::CloneSwap => {
                r.desc = "clone and continue on the clone".into();
                let c = self.dt.clone();
                self.dt = c;
                Outcome::Noop
            }
        };
        let _ = FlipError::UnsupportedDimension { dimension: 0 };
        (r, out)
    }
}

// ------------------------------------------------------------------ strategies

pub fn point_spec(dim: usize) -> BoxedStrategy<PointSpec> {
    prop_oneof![
        4 => proptest::collection::vec(-24i16..=24, dim).prop_map(PointSpec::Grid),
        1 => any::<u16>().prop_map(PointSpec::AtVertex),
        2 => (any::<u16>(), 0u8..7, 0u8..8, any::<bool>()).prop_map(|(i, s, a, n)| PointSpec::NearVertex(i, s, a, n)),
        1 => (any::<u16>(), any::<u16>()).prop_map(|(a, b)| PointSpec::EdgeMid(a, b)),
        3 => (any::<u16>(), proptest::collection::vec(0u8..8, dim + 1)).prop_map(|(c, w)| PointSpec::CellBary(c, w)),
        3 => (any::<u16>(), 0u8..8).prop_map(|(f, t)| PointSpec::BeyondHull(f, t)),
        1 => any::<u16>().prop_map(PointSpec::OnHullPlane),
        1 => any::<u16>().prop_map(PointSpec::Former),
        2 => proptest::collection::vec(-3i8..=3, dim).prop_map(PointSpec::AffineComb),
    ]
    .boxed()
}

pub fn sel() -> BoxedStrategy<u16> {
    prop_oneof![15 => 0u16..0xFF00, 1 => 0xFF00u16..=0xFFFF].boxed()
}

#[derive(Clone, Copy, Debug)]
pub struct OpMix {
    pub insert: u32,
    pub remove: u32,
    pub flips: u32,
    pub repair: u32,
    pub setters: u32,
    pub clone: u32,
    pub adversarial_uuid: bool,
}

pub fn op_strategy(dim: usize, mix: OpMix) -> BoxedStrategy<Op> {
    op_strategy_ext(dim, mix, false)
}

/// `extreme`: also generate extreme-magnitude and non-finite coordinates (C19's adversarial generator)
pub fn op_strategy_ext(dim: usize, mix: OpMix, extreme: bool) -> BoxedStrategy<Op> {
    let uuid = if mix.adversarial_uuid {
        prop_oneof![8 => Just(UuidSpec::Fresh), 1 => any::<u16>().prop_map(UuidSpec::Live), 1 => any::<u16>().prop_map(UuidSpec::Dead)].boxed()
    } else {
        Just(UuidSpec::Fresh).boxed()
    };
    let pspec = if extreme {
        prop_oneof![
            6 => point_spec(dim),
            2 => (prop_oneof![3 => -15i8..=15, 1 => -120i8..=120], -50i16..=50).prop_map(|(e, m)| PointSpec::Extreme(e, m)),
            1 => (0u8..3, 0u8..5).prop_map(|(k, a)| PointSpec::NonFinite(k, a)),
        ]
        .boxed()
    } else {
        point_spec(dim)
    };
    let insert = (pspec, any::<bool>(), uuid.clone()).prop_map(|(p, stats, uuid)| Op::Insert { p, stats, uuid });
    let remove = (any::<u16>(), prop_oneof![9 => Just(false), 1 => Just(true)]).prop_map(|(v, unknown)| Op::Remove { v, unknown });
    let flips = prop_oneof![
        2 => (sel(), proptest::collection::vec(0u8..8, dim + 1), uuid.clone()).prop_map(|(cell, w, uuid)| Op::FlipK1Insert { cell, w, uuid }),
        2 => sel().prop_map(|v| Op::FlipK1Remove { v }),
        4 => (sel(), prop_oneof![12 => 0u8..6, 1 => 250u8..=255]).prop_map(|(cell, facet)| Op::FlipK2 { cell, facet }),
        3 => (sel(), prop_oneof![12 => 0u8..6, 1 => 250u8..=255], 0u8..6).prop_map(|(cell, a, b)| Op::FlipK3 { cell, a, b }),
        2 => (sel(), sel()).prop_map(|(a, b)| Op::FlipK2Inv { a, b }),
        1 => (sel(), sel(), sel()).prop_map(|(a, b, c)| Op::FlipK3Inv { a, b, c }),
    ];
    let repair = prop_oneof![
        2 => Just(Op::Repair),
        1 => (proptest::option::of(any::<u64>()), proptest::option::of(any::<u64>())).prop_map(|(shuffle, perturb)| Op::RepairAdvanced { shuffle, perturb }),
    ];
    let setters = prop_oneof![
        (0u8..4).prop_map(Op::SetValidation),
        (0u8..3).prop_map(Op::SetGuarantee),
        (0u8..4).prop_map(Op::SetRepairPolicy),
        (0u8..3).prop_map(Op::SetCheckPolicy),
    ];
    let mut arms: Vec<(u32, BoxedStrategy<Op>)> = Vec::new();
    if mix.insert > 0 {
        arms.push((mix.insert, insert.boxed()));
    }
    if mix.remove > 0 {
        arms.push((mix.remove, remove.boxed()));
    }
    if mix.flips > 0 {
        arms.push((mix.flips, flips.boxed()));
    }
    if mix.repair > 0 {
        arms.push((mix.repair, repair.boxed()));
    }
    if mix.setters > 0 {
        arms.push((mix.setters, setters.boxed()));
    }
    if mix.clone > 0 {
        arms.push((mix.clone, prop_oneof![Just(Op::CloneSwap), Just(Op::TouchMut), Just(Op::Snapshot), Just(Op::Restore)].boxed()));
    }
    proptest::strategy::Union::new_weighted(arms).boxed()
}

/// Initial state of a history.
#[derive(Debug, Clone, Serialize, Deserialize, PartialEq)]
pub struct Start {
    /// points for an initial batch construction (empty => start from an empty triangulation)
    pub points: Vec<Vec<f64>>,
    pub guarantee: u8,
    pub validation: Option<u8>,
    pub repair: Option<u8>,
    pub check: Option<u8>,
    /// all start points are multiplied by 2^scale_pow (0 = unscaled)
    #[serde(default)]
    pub scale_pow: i8,
}

pub fn start_strategy(dim: usize, nmax: usize, empty_weight: u32) -> BoxedStrategy<Start> {
    let pts = prop_oneof![
        empty_weight => Just(Vec::<Vec<f64>>::new()),
        6 => crate::gen::points::point_set_from(dim, dim + 1, nmax, crate::gen::points::EXACT_FAMILIES).prop_map(|p| p.pts),
    ];
    (pts, 0u8..3, proptest::option::of(0u8..4), proptest::option::of(0u8..4), proptest::option::of(0u8..3), prop_oneof![6 => Just(0i8), 1 => Just(-2i8), 1 => Just(-4i8), 1 => Just(-6i8), 1 => Just(3i8)])
        .prop_map(|(points, guarantee, validation, repair, check, scale_pow)| Start { points, guarantee, validation, repair, check, scale_pow })
        .boxed()
}

/// Build the starting world; None if the batch construction returned Err.
pub fn start_world<K: Kern<D>, const D: usize>(st: &Start, salt: u64) -> Option<World<K, D>> {
    let k = K::make();
    let g = guarantee(st.guarantee);
    let mut dt: Dt<K, i32, D> = if st.points.is_empty() {
        Dt::<K, i32, D>::with_empty_kernel_and_topology_guarantee(k, g)
    } else {
        let sc = 2f64.powi(st.scale_pow as i32);
        let verts: Vec<_> = st.points.iter().enumerate().map(|(i, p)| mk_vertex::<i32, D>(&p.iter().map(|x| x * sc).collect::<Vec<f64>>(), uuid_for(salt, i + 1), Some((i as i64 + 1) * 3 + 1))).collect();
        Dt::<K, i32, D>::with_topology_guarantee(&k, &verts, g).ok()?
    };
    if let Some(v) = st.validation {
        dt.set_validation_policy(validation_policy(v));
    }
    if let Some(v) = st.repair {
        dt.set_delaunay_repair_policy(repair_policy(v));
    }
    if let Some(v) = st.check {
        dt.set_delaunay_check_policy(check_policy(v));
    }
    Some(World::new(dt, salt, st.points.len() + 1))
}

/// uuid -> (coords, data) of the live vertices
pub fn vertex_model(s: &Snap) -> BTreeMap<u128, (Vec<u64>, Option<i64>)> {
    s.verts.iter().map(|v| (v.uuid, (v.coords.iter().map(|x| x.to_bits()).collect(), v.data))).collect()
}
