//! Canonical fingerprint of the observable state of a triangulation (keys excluded).

use super::snap::Snap;
use serde::Serialize;
use std::collections::HashMap;

#[derive(Debug, Clone, PartialEq, Eq, Serialize, Hash)]
pub struct Fingerprint {
    pub vertices: Vec<(u128, Vec<u64>, Option<i64>)>,
    /// cells as sorted vertex-uuid tuples with data (and cell uuid when requested)
    pub cells: Vec<(Vec<u128>, Option<i64>, Option<u128>)>,
    /// neighbour relation: (cell tuple, opposite vertex uuid, neighbour tuple or empty)
    pub neighbors: Vec<(Vec<u128>, u128, Vec<u128>)>,
    pub incident_ok: bool,
    pub counts: (usize, usize),
    pub policies: String,
}

pub fn fingerprint(s: &Snap, policies: &str, with_cell_uuids: bool) -> Fingerprint {
    let key_uuid: HashMap<u64, u128> = s.verts.iter().map(|v| (v.key, v.uuid)).collect();
    let mut vertices: Vec<(u128, Vec<u64>, Option<i64>)> = s.verts.iter().map(|v| (v.uuid, v.coords.iter().map(|x| x.to_bits()).collect(), v.data)).collect();
    vertices.sort();
    let tuple = |verts: &[u64]| -> Vec<u128> {
        let mut t: Vec<u128> = verts.iter().map(|k| *key_uuid.get(k).unwrap_or(&0)).collect();
        t.sort_unstable();
        t
    };
    let cell_tuple: HashMap<u64, Vec<u128>> = s.cells.iter().map(|c| (c.key, tuple(&c.verts))).collect();
    let mut cells: Vec<(Vec<u128>, Option<i64>, Option<u128>)> = s.cells.iter().map(|c| (cell_tuple[&c.key].clone(), c.data, if with_cell_uuids { Some(c.uuid) } else { None })).collect();
    cells.sort();
    let mut neighbors = Vec::new();
    for c in &s.cells {
        for (i, vk) in c.verts.iter().enumerate() {
            let n = c.neighbors.as_ref().and_then(|n| n.get(i).copied().flatten());
            let nt = n.and_then(|k| cell_tuple.get(&k).cloned()).unwrap_or_default();
            neighbors.push((cell_tuple[&c.key].clone(), *key_uuid.get(vk).unwrap_or(&0), nt));
        }
    }
    neighbors.sort();
    Fingerprint {
        vertices,
        cells,
        neighbors,
        incident_ok: s.verts.iter().all(|v| v.incident_cell.map_or(true, |c| cell_tuple.contains_key(&c))),
        counts: (s.n_vertices_reported, s.n_cells_reported),
        policies: policies.to_string(),
    }
}

/// first difference between two fingerprints, for messages
pub fn diff(a: &Fingerprint, b: &Fingerprint) -> String {
    if a.vertices != b.vertices {
        let ua: Vec<u128> = a.vertices.iter().map(|v| v.0).collect();
        let ub: Vec<u128> = b.vertices.iter().map(|v| v.0).collect();
        if ua != ub {
            return format!("vertex set differs ({} vs {} vertices)", a.vertices.len(), b.vertices.len());
        }
        return "vertex coordinates or data differ".into();
    }
    if a.cells != b.cells {
        return format!("cell set differs ({} vs {} cells)", a.cells.len(), b.cells.len());
    }
    if a.neighbors != b.neighbors {
        return "neighbour relation differs".into();
    }
    if a.counts != b.counts {
        return format!("counts differ {:?} vs {:?}", a.counts, b.counts);
    }
    if a.policies != b.policies {
        return format!("policies differ: {} vs {}", a.policies, b.policies);
    }
    if a.incident_ok != b.incident_ok {
        return "incident-cell pointers differ".into();
    }
    "identical".into()
}
