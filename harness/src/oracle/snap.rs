//! Dimension-agnostic snapshot of a triangulation read through the public API only.

use delaunay::core::traits::data_type::DataType;
use delaunay::core::triangulation_data_structure::{CellKey, Tds, VertexKey};
use serde::{Deserialize, Serialize};
use std::collections::HashMap;

/// User-data types the harness supports (unit and i32), mapped to i64 for snapshots.
pub trait DataVal: DataType + Send + Sync + 'static {
    fn to_i64(self) -> i64;
    fn from_i64(v: i64) -> Option<Self>;
    const HAS_DATA: bool;
}
impl DataVal for () {
    fn to_i64(self) -> i64 {
        0
    }
    fn from_i64(_: i64) -> Option<Self> {
        None
    }
    const HAS_DATA: bool = false;
}
impl DataVal for i32 {
    fn to_i64(self) -> i64 {
        self as i64
    }
    fn from_i64(v: i64) -> Option<Self> {
        Some(v as i32)
    }
    const HAS_DATA: bool = true;
}

pub fn vkey_u64(k: VertexKey) -> u64 {
    use slotmap::Key;
    k.data().as_ffi()
}
pub fn ckey_u64(k: CellKey) -> u64 {
    use slotmap::Key;
    k.data().as_ffi()
}
pub fn vkey_from_u64(v: u64) -> VertexKey {
    slotmap::KeyData::from_ffi(v).into()
}
pub fn ckey_from_u64(v: u64) -> CellKey {
    slotmap::KeyData::from_ffi(v).into()
}

#[derive(Clone, Debug, Serialize, Deserialize, PartialEq)]
pub struct SnapVertex {
    pub key: u64,
    pub uuid: u128,
    pub coords: Vec<f64>,
    pub data: Option<i64>,
    pub incident_cell: Option<u64>,
    /// tds.vertex_key_from_uuid(uuid)
    pub uuid_lookup: Option<u64>,
    /// tds.vertex_uuid_from_key(key)
    pub key_lookup: Option<u128>,
}

#[derive(Clone, Debug, Serialize, Deserialize, PartialEq)]
pub struct SnapCell {
    pub key: u64,
    pub uuid: u128,
    pub verts: Vec<u64>,
    pub neighbors: Option<Vec<Option<u64>>>,
    pub data: Option<i64>,
    pub periodic: Option<Vec<Vec<i8>>>,
    pub uuid_lookup: Option<u64>,
    pub key_lookup: Option<u128>,
}

#[derive(Clone, Debug, Serialize, Deserialize, PartialEq)]
pub struct Snap {
    pub dim: usize,
    pub verts: Vec<SnapVertex>,
    pub cells: Vec<SnapCell>,
    pub n_vertices_reported: usize,
    pub n_cells_reported: usize,
}

impl Snap {
    pub fn of<U: DataVal, V: DataVal, const D: usize>(tds: &Tds<f64, U, V, D>) -> Snap {
        let mut verts: Vec<SnapVertex> = tds
            .vertices()
            .map(|(k, v)| SnapVertex {
                key: vkey_u64(k),
                uuid: v.uuid().as_u128(),
                coords: v.point().coords().to_vec(),
                data: v.data.map(DataVal::to_i64),
                incident_cell: v.incident_cell.map(ckey_u64),
                uuid_lookup: tds.vertex_key_from_uuid(&v.uuid()).map(vkey_u64),
                key_lookup: tds.vertex_uuid_from_key(k).map(|u| u.as_u128()),
            })
            .collect();
        verts.sort_by_key(|v| v.key);
        let mut cells: Vec<SnapCell> = tds
            .cells()
            .map(|(k, c)| SnapCell {
                key: ckey_u64(k),
                uuid: c.uuid().as_u128(),
                verts: c.vertices().iter().map(|&v| vkey_u64(v)).collect(),
                neighbors: c.neighbors().map(|n| n.iter().map(|o| o.map(ckey_u64)).collect()),
                data: c.data.map(DataVal::to_i64),
                periodic: c.periodic_vertex_offsets().map(|o| o.iter().map(|a| a.to_vec()).collect()),
                uuid_lookup: tds.cell_key_from_uuid(&c.uuid()).map(ckey_u64),
                key_lookup: tds.cell_uuid_from_key(k).map(|u| u.as_u128()),
            })
            .collect();
        cells.sort_by_key(|c| c.key);
        Snap {
            dim: D,
            verts,
            cells,
            n_vertices_reported: tds.number_of_vertices(),
            n_cells_reported: tds.number_of_cells(),
        }
    }

    pub fn vindex(&self) -> HashMap<u64, usize> {
        self.verts.iter().enumerate().map(|(i, v)| (v.key, i)).collect()
    }
    pub fn cindex(&self) -> HashMap<u64, usize> {
        self.cells.iter().enumerate().map(|(i, c)| (c.key, i)).collect()
    }
    pub fn points(&self) -> Vec<Vec<f64>> {
        self.verts.iter().map(|v| v.coords.clone()).collect()
    }
    pub fn all_finite(&self) -> bool {
        self.verts.iter().all(|v| v.coords.iter().all(|x| x.is_finite()))
    }
    /// cells as dense vertex indices (None if a cell references a missing vertex)
    pub fn cell_indices(&self) -> Option<Vec<Vec<usize>>> {
        let vi = self.vindex();
        self.cells
            .iter()
            .map(|c| c.verts.iter().map(|k| vi.get(k).copied()).collect::<Option<Vec<usize>>>())
            .collect()
    }
}
