//! One-stop certification of a Euclidean triangulation snapshot: independent levels, exact
//! Delaunay property, convex boundary, coverage, and (in general position) equality with the
//! brute-force reference Delaunay triangulation.

use super::delaunay::{canonical_cells, convex_boundary_issues, coverage_issues, strict_violations, DelaunayReport};
use super::levels::{check, Opts, Report};
use super::snap::Snap;
use crate::exact::band::{analyze, orientation_matrix, Decision};
use crate::exact::geom::{binom, general_position, reference_dt, ScaledPoints};

fn diameter(pts: &[Vec<f64>]) -> f64 {
    let mut m = 0.0f64;
    for a in pts {
        for b in pts {
            let dd: f64 = a.iter().zip(b).map(|(x, y)| (x - y) * (x - y)).sum();
            m = m.max(dd.sqrt());
        }
    }
    m.max(f64::MIN_POSITIVE)
}

#[derive(Debug)]
pub struct Cert {
    pub levels: Report,
    pub delaunay: Option<DelaunayReport>,
    pub convex_decidable: Vec<String>,
    pub convex_in_band: usize,
    pub coverage_used: usize,
    pub coverage_issues: Vec<String>,
    pub general_position: Option<bool>,
    pub ref_equal: Option<bool>,
    pub ref_detail: String,
    pub violation_class: &'static str,
    /// smallest (boundary facet extent / point-set diameter) over offending convexity facets
    pub convex_min_rel_facet: f64,
}

impl Cert {
    /// (kind, detail) list of everything that is a defect of a "certified Delaunay triangulation"
    pub fn problems(&self) -> Vec<(String, String)> {
        let mut out: Vec<(String, String)> = Vec::new();
        for i in &self.levels.issues {
            out.push((format!("L{}_{}", i.level, i.kind), i.detail.clone()));
        }
        if let Some(d) = &self.delaunay {
            if let Some(v) = d.decidable().first() {
                out.push(("not_delaunay".into(), format!("{} decidable strict circumsphere violations, first: cell #{} vertex #{}", d.decidable().len(), v.cell, v.vertex)));
            }
        }
        if let Some(c) = self.convex_decidable.first() {
            out.push(("nonconvex_boundary".into(), c.clone()));
        }
        // coverage (every interior sample in exactly one cell) is demanded only when the boundary is
        // cleanly convex: a decidably non-convex boundary is reported above (a hole or an overlap
        // next to it is the same defect), and when some boundary / orientation determinant lies in
        // the tolerance band the hull itself is not determined at the scale of the missing sliver
        if self.convex_decidable.is_empty() && self.convex_in_band == 0 && self.levels.orient_in_band == 0 {
            if let Some(c) = self.coverage_issues.first() {
                out.push(("coverage".into(), c.clone()));
            }
        }
        let any_strict = self.delaunay.as_ref().map_or(false, |d| !d.violations.is_empty());
        if self.ref_equal == Some(false) && !any_strict && out.is_empty() && self.convex_in_band == 0 && self.levels.orient_in_band == 0 {
            out.push(("differs_from_reference_dt".into(), self.ref_detail.clone()));
        }
        out
    }
    pub fn ok(&self) -> bool {
        self.problems().is_empty()
    }
}

pub struct CertOpts {
    pub levels: Opts,
    pub delaunay: bool,
    pub convex: bool,
    pub coverage: bool,
    pub reference: bool,
}

pub fn certify(s: &Snap, o: &CertOpts) -> Cert {
    let mut c = Cert { levels: check(s, o.levels), violation_class: "none", convex_min_rel_facet: f64::INFINITY, delaunay: None, convex_decidable: Vec::new(), convex_in_band: 0, coverage_used: 0, coverage_issues: Vec::new(), general_position: None, ref_equal: None, ref_detail: String::new() };
    if s.cells.is_empty() || !c.levels.ok_upto(2) || !s.all_finite() {
        return c;
    }
    let Some(cells) = s.cell_indices() else { return c };
    let pts = s.points();
    let n = pts.len();
    // coverage samples: centroids of consecutive (D+1)-windows and midpoints, plus far points
    let mut all = pts.clone();
    let mut samples = Vec::new();
    if o.coverage {
        let d = s.dim;
        let mut add = |p: Vec<f64>| {
            if p.iter().all(|x| x.is_finite()) {
                all.push(p);
            }
        };
        for i in 0..n.min(10) {
            let mut cen = vec![0.0; d];
            for k in 0..=d {
                for j in 0..d {
                    cen[j] += pts[(i + k * 3) % n][j];
                }
            }
            add(cen.iter().map(|x| x / (d as f64 + 1.0) + 1.0 / 1024.0 / (i as f64 + 3.0)).collect());
            let a = &pts[i];
            let b = &pts[(i * 7 + 1) % n];
            add((0..d).map(|j| 0.625 * a[j] + 0.375 * b[j] + (j as f64 + 1.0) / 4096.0).collect());
        }
        // bounding box corners pushed outwards
        let lo: Vec<f64> = (0..d).map(|j| pts.iter().map(|p| p[j]).fold(f64::INFINITY, f64::min)).collect();
        let hi: Vec<f64> = (0..d).map(|j| pts.iter().map(|p| p[j]).fold(f64::NEG_INFINITY, f64::max)).collect();
        let ext: f64 = (0..d).map(|j| hi[j] - lo[j]).fold(0.0, f64::max).max(f64::MIN_POSITIVE);
        add((0..d).map(|j| hi[j] + ext * 0.25 * (j as f64 + 1.0)).collect());
        add((0..d).map(|j| lo[j] - ext * 0.375).collect());
        samples = (n..all.len()).collect();
    }
    let spv = ScaledPoints::new(&pts);
    if o.delaunay {
        let rep = strict_violations(s, &spv, &cells, 64);
        c.violation_class = super::delaunay::classify_violations(&pts, &spv, &cells, &rep);
        c.delaunay = Some(rep);
    }
    if o.convex {
        for (f, q) in convex_boundary_issues(&spv, &cells) {
            let mut m: Vec<Vec<f64>> = f.iter().map(|&i| pts[i].clone()).collect();
            m.push(pts[q].clone());
            match analyze(&orientation_matrix(&m), 1e-15).decision {
                Decision::Sign(_) => {
                    let diam = diameter(&pts);
                    let mut ext = 0.0f64;
                    for a in &f {
                        for b in &f {
                            let dd: f64 = pts[*a].iter().zip(&pts[*b]).map(|(x, y)| (x - y) * (x - y)).sum();
                            ext = ext.max(dd.sqrt());
                        }
                    }
                    c.convex_min_rel_facet = c.convex_min_rel_facet.min(ext / diam);
                    c.convex_decidable.push(format!("vertex #{} {:?} lies strictly outside boundary facet {:?}", q, pts[q], f))
                }
                _ => c.convex_in_band += 1,
            }
        }
    }
    if o.coverage && c.levels.ok_upto(3) {
        let sp = ScaledPoints::new(&all);
        let (used, issues) = coverage_issues(&sp, n, &cells, &samples);
        c.coverage_used = used;
        c.coverage_issues = issues;
    }
    if o.reference && n <= 14 && binom(n, s.dim + 2) <= 4000 {
        let gp = general_position(&spv);
        c.general_position = Some(gp);
        if gp {
            let reference = reference_dt(&spv);
            let got = canonical_cells(&cells);
            let eq = reference == got;
            c.ref_equal = Some(eq);
            if !eq {
                c.ref_detail = format!("library has {} cells, the unique Delaunay triangulation has {}: library {:?} reference {:?}", got.len(), reference.len(), got, reference);
            }
        }
    }
    c
}

