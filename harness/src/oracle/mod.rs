pub mod certify;
pub mod delaunay;
pub mod levels;
pub mod snap;
