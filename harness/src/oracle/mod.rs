pub mod certify;
pub mod delaunay;
pub mod fingerprint;
pub mod levels;
pub mod snap;
