//! Exact empty-circumsphere, convex-boundary and coverage oracles on a `Snap`.

use super::snap::Snap;
use crate::exact::band::{analyze, insphere_matrix, Decision};
use crate::exact::geom::{for_each_subset, HullSide, ScaledPoints};
use std::collections::BTreeMap;

#[derive(Clone, Debug)]
pub struct StrictViolation {
    pub cell: usize,
    pub vertex: usize,
    pub decidable: bool,
}

#[derive(Clone, Debug, Default)]
pub struct DelaunayReport {
    pub pairs_checked: usize,
    pub violations: Vec<StrictViolation>,
    pub degenerate_cells: usize,
}

impl DelaunayReport {
    pub fn decidable(&self) -> Vec<&StrictViolation> {
        self.violations.iter().filter(|v| v.decidable).collect()
    }
    pub fn has_decidable(&self) -> bool {
        self.violations.iter().any(|v| v.decidable)
    }
}

/// Is the (cell, vertex) in-sphere determinant outside the documented tolerance band, evaluated on
/// the matrix the kernels build (absolute coordinates, stored vertex order)?
pub fn pair_decidable(pts: &[Vec<f64>], cell: &[usize], q: usize) -> bool {
    let simplex: Vec<Vec<f64>> = cell.iter().map(|&i| pts[i].clone()).collect();
    let (m, exact) = insphere_matrix(&simplex, &pts[q]);
    if !exact {
        return false;
    }
    // the simplex orientation must be decidable as well (the predicate normalises by it)
    let om = crate::exact::band::orientation_matrix(&simplex);
    if !matches!(analyze(&om, 1e-15).decision, Decision::Sign(_)) {
        return false;
    }
    matches!(analyze(&m, 1e-15).decision, Decision::Sign(_))
}

/// All (cell, vertex) pairs with the vertex strictly inside the cell's circumsphere (exact).
/// `max_report` bounds the list (the count of decidable ones is what matters).
pub fn strict_violations(s: &Snap, sp: &ScaledPoints, cells: &[Vec<usize>], max_report: usize) -> DelaunayReport {
    let pts = s.points();
    let mut rep = DelaunayReport::default();
    for (ci, c) in cells.iter().enumerate() {
        let o = sp.orient(c);
        if o == 0 {
            rep.degenerate_cells += 1;
            continue;
        }
        for q in 0..sp.len() {
            if c.contains(&q) {
                continue;
            }
            rep.pairs_checked += 1;
            if sp.lifted_det(c, q).signum() * o > 0 {
                if rep.violations.len() < max_report {
                    let decidable = pair_decidable(&pts, c, q);
                    rep.violations.push(StrictViolation { cell: ci, vertex: q, decidable });
                }
            }
        }
    }
    rep
}

/// Boundary facets (as dense vertex indices, with the index of the opposite vertex of the owning
/// cell), computed from cell vertex sets.
pub fn boundary_facets(cells: &[Vec<usize>]) -> Vec<(Vec<usize>, usize)> {
    let mut m: BTreeMap<Vec<usize>, Vec<usize>> = BTreeMap::new();
    for c in cells {
        for i in 0..c.len() {
            let mut f: Vec<usize> = c.iter().enumerate().filter(|(j, _)| *j != i).map(|(_, &k)| k).collect();
            f.sort_unstable();
            m.entry(f).or_default().push(c[i]);
        }
    }
    m.into_iter().filter(|(_, o)| o.len() == 1).map(|(f, o)| (f, o[0])).collect()
}

/// Every boundary facet's hyperplane must have all vertices on the side of the cell's opposite
/// vertex (or on the plane).  Returns offending (facet, vertex) pairs.
pub fn convex_boundary_issues(sp: &ScaledPoints, cells: &[Vec<usize>]) -> Vec<(Vec<usize>, usize)> {
    let mut out = Vec::new();
    for (f, opp) in boundary_facets(cells) {
        let so = sp.side(&f, opp);
        if so == 0 {
            continue; // flat cell; reported elsewhere
        }
        for q in 0..sp.len() {
            let sq = sp.side(&f, q);
            if sq * so < 0 {
                out.push((f.clone(), q));
                break;
            }
        }
    }
    out
}

/// Coverage: sample points (appended to the point set by the caller as indices >= n_verts of `sp`)
/// must lie in exactly one closed cell when strictly inside the hull and off every facet
/// hyperplane, and in none when strictly outside.  Returns descriptions of failures.
pub fn coverage_issues(sp: &ScaledPoints, n_verts: usize, cells: &[Vec<usize>], samples: &[usize]) -> (usize, Vec<String>) {
    let verts: Vec<usize> = (0..n_verts).collect();
    let mut used = 0usize;
    let mut out = Vec::new();
    'sample: for &q in samples {
        // count containing cells, skipping samples on a facet hyperplane
        let mut containing = 0usize;
        for c in cells {
            let Some(signs) = sp.barycentric_signs(c, q) else { continue 'sample };
            if signs.iter().any(|&x| x == 0) {
                continue 'sample;
            }
            if signs.iter().all(|&x| x > 0) {
                containing += 1;
            }
        }
        let side = hull_side_small(sp, &verts, q);
        match side {
            HullSide::StrictlyInside => {
                used += 1;
                if containing != 1 {
                    out.push(format!("sample {:?} strictly inside the hull lies in {} cells", sp_point(sp, q), containing));
                }
            }
            HullSide::StrictlyOutside => {
                used += 1;
                if containing != 0 {
                    out.push(format!("sample {:?} strictly outside the hull lies in {} cells", sp_point(sp, q), containing));
                }
            }
            HullSide::OnBoundary => {}
        }
    }
    (used, out)
}

fn sp_point(sp: &ScaledPoints, q: usize) -> Vec<f64> {
    sp.big[q].iter().map(|b| crate::exact::bigint::ldexp(b.to_f64(), sp.exp as i64)).collect()
}

/// hull side by brute force over D-subsets, bounded: for large sets use only the extreme candidates
pub fn hull_side_small(sp: &ScaledPoints, set: &[usize], q: usize) -> HullSide {
    crate::exact::geom::hull_side(sp, set, q)
}

/// The cell set as sorted vertex-index tuples, sorted.
pub fn canonical_cells(cells: &[Vec<usize>]) -> Vec<Vec<usize>> {
    let mut v: Vec<Vec<usize>> = cells
        .iter()
        .map(|c| {
            let mut c = c.clone();
            c.sort_unstable();
            c
        })
        .collect();
    v.sort();
    v
}

/// number of supporting hyperplanes helper used by tests
pub fn count_subsets(n: usize, k: usize) -> usize {
    let mut c = 0;
    for_each_subset(n, k, |_| {
        c += 1;
        true
    });
    c
}

/// Root-cause class of a non-Delaunay result, from its *locally* non-Delaunay facets (pairs of
/// facet-adjacent cells A, B with B's apex decidably strictly inside A's circumsphere), used as a
/// discriminating fact for known findings:
///  * "d4_suppressed"        D >= 4: every such pair is of the form the library declares an
///                            "impossible both-positive artefact" and skips
///  * "degenerate_flip"      D <= 3 and for every such pair the k=2 flip would create a cell whose
///                            orientation is not decidably non-zero (the verifier skips those)
///  * "unexplained_local"    at least one locally non-Delaunay facet with a clean flip
///  * "local_in_band"        decidable global violations, but every locally non-Delaunay facet has
///                            its in-sphere determinant inside the tolerance band
///  * "no_local_violation"   decidable global violations but no locally non-Delaunay facet at all
pub fn classify_violations(pts: &[Vec<f64>], sp: &ScaledPoints, cells: &[Vec<usize>], rep: &DelaunayReport) -> &'static str {
    use crate::exact::band::{analyze, orientation_matrix, Decision};
    let d = sp.dim;
    if !rep.has_decidable() {
        return "none";
    }
    let mut facets: BTreeMap<Vec<usize>, Vec<usize>> = BTreeMap::new();
    for (ci, c) in cells.iter().enumerate() {
        for i in 0..c.len() {
            let mut f: Vec<usize> = c.iter().enumerate().filter(|(j, _)| *j != i).map(|(_, &k)| k).collect();
            f.sort_unstable();
            facets.entry(f).or_default().push(ci);
        }
    }
    let mut local = 0usize;
    let mut local_in_band = 0usize;
    let mut unexplained = 0usize;
    for (f, inc) in &facets {
        if inc.len() != 2 {
            continue;
        }
        let (a, b) = (&cells[inc[0]], &cells[inc[1]]);
        let apex_a = *a.iter().find(|x| !f.contains(x)).unwrap();
        let apex_b = *b.iter().find(|x| !f.contains(x)).unwrap();
        let exact_viol = sp.insphere(a, apex_b) == Some(1) || sp.insphere(b, apex_a) == Some(1);
        if !exact_viol {
            continue;
        }
        let viol = (sp.insphere(a, apex_b) == Some(1) && pair_decidable(pts, a, apex_b)) || (sp.insphere(b, apex_a) == Some(1) && pair_decidable(pts, b, apex_a));
        if !viol {
            local_in_band += 1;
            continue;
        }
        local += 1;
        if d >= 4 {
            continue;
        }
        let mut degenerate = false;
        for skip in 0..f.len() {
            let mut cell: Vec<usize> = f.iter().enumerate().filter(|(i, _)| *i != skip).map(|(_, &x)| x).collect();
            cell.push(apex_a);
            cell.push(apex_b);
            let m = orientation_matrix(&cell.iter().map(|&i| pts[i].clone()).collect::<Vec<_>>());
            if !matches!(analyze(&m, 1e-15).decision, Decision::Sign(_)) {
                degenerate = true;
            }
        }
        if !degenerate {
            unexplained += 1;
        }
    }
    if local == 0 && local_in_band > 0 {
        "local_in_band"
    } else if local == 0 {
        "no_local_violation"
    } else if unexplained > 0 {
        "unexplained_local"
    } else if d >= 4 {
        // The library's global (brute-force) verifier suppresses a violating (cell, vertex) pair only
        // when the vertex is the apex of a facet-neighbour of the cell.  A decidable violation
        // between cells that do not share a facet cannot be blamed on that suppression.
        let adjacent_apex = |ci: usize, q: usize| -> bool {
            let c = &cells[ci];
            cells.iter().enumerate().any(|(cj, o)| cj != ci && o.contains(&q) && o.iter().filter(|x| c.contains(x)).count() == d)
        };
        if rep.decidable().iter().all(|v| adjacent_apex(v.cell, v.vertex)) {
            "d4_suppressed"
        } else {
            "d4_nonadjacent"
        }
    } else {
        "degenerate_flip"
    }
}
