//! Independent recomputation of validity Levels 1–3 from a `Snap` (public read API only).
//! Shares no code with the library: facets are sorted key tuples (not 64-bit hashes), links,
//! Euler characteristic and connectedness are computed from face enumeration.

use super::snap::Snap;
use crate::exact::band::{analyze, orientation_matrix, Decision};
use crate::exact::geom::ScaledPoints;
use std::collections::{BTreeMap, BTreeSet, HashMap, HashSet};

#[derive(Clone, Copy, Debug, PartialEq, Eq)]
pub enum Guarantee {
    Pseudomanifold,
    PLManifold,
    PLManifoldStrict,
}

#[derive(Clone, Debug, PartialEq, Eq)]
pub struct Issue {
    pub level: u8,
    pub kind: &'static str,
    pub detail: String,
}

#[derive(Clone, Debug, Default)]
pub struct Report {
    pub issues: Vec<Issue>,
    pub bootstrap: bool,
    /// orientation checks that fell in the tolerance band (not demanded)
    pub orient_in_band: usize,
    pub f_vector: Vec<i64>,
    pub chi: i64,
    pub boundary_facets: usize,
    pub boundary_chi: Option<i64>,
}

impl Report {
    pub fn level_ok(&self, level: u8) -> bool {
        !self.issues.iter().any(|i| i.level == level)
    }
    pub fn ok_upto(&self, level: u8) -> bool {
        !self.issues.iter().any(|i| i.level <= level)
    }
    pub fn kinds(&self) -> Vec<&'static str> {
        let mut k: Vec<&'static str> = self.issues.iter().map(|i| i.kind).collect();
        k.sort();
        k.dedup();
        k
    }
    pub fn has(&self, kind: &str) -> bool {
        self.issues.iter().any(|i| i.kind == kind)
    }
    pub fn first(&self) -> String {
        self.issues.first().map_or(String::new(), |i| format!("L{} {}: {}", i.level, i.kind, i.detail))
    }
}

#[derive(Clone, Copy, Debug)]
pub struct Opts {
    pub guarantee: Guarantee,
    /// check vertex links for PLManifold as well (the "at completion" strength)
    pub completion: bool,
    /// demand exact positive orientation of stored cells (Euclidean embedding)
    pub geometric_orientation: bool,
    /// demand Euler characteristic of a ball and sphere boundary
    pub euler: bool,
    /// periodic quotient: allow self neighbours / skip Euclidean-only checks
    pub periodic: bool,
    /// demand that the boundary complex has the Euler characteristic of a (D-1)-sphere
    pub boundary_euler: bool,
    /// also send positively oriented cells through the tolerance-band analysis (a cell whose exact
    /// determinant is positive but inside the library's tolerance counts as undecidable)
    pub band_positive: bool,
}

impl Opts {
    pub fn euclid(g: Guarantee, completion: bool) -> Self {
        Opts { guarantee: g, completion, geometric_orientation: true, euler: true, periodic: false, boundary_euler: false, band_positive: false }
    }
    /// Euclidean ball with sphere boundary (C01 strength)
    pub fn ball(g: Guarantee, completion: bool) -> Self {
        Opts { boundary_euler: true, ..Self::euclid(g, completion) }
    }
    pub fn structural_only() -> Self {
        Opts { guarantee: Guarantee::Pseudomanifold, completion: false, geometric_orientation: false, euler: false, periodic: false, boundary_euler: false, band_positive: false }
    }
}

fn is_v4(uuid: u128) -> bool {
    // RFC 4122 version nibble: bits 76..79 counted from the MSB side => byte 6 high nibble
    let bytes = uuid.to_be_bytes();
    (bytes[6] >> 4) == 4
}

fn perm_parity_odd(a: &[u64], b: &[u64]) -> Option<bool> {
    // parity of the permutation taking sequence a to sequence b (same set)
    if a.len() != b.len() {
        return None;
    }
    let pos: HashMap<u64, usize> = b.iter().enumerate().map(|(i, &k)| (k, i)).collect();
    let mut p = Vec::with_capacity(a.len());
    for k in a {
        p.push(*pos.get(k)?);
    }
    let mut odd = false;
    for i in 0..p.len() {
        for j in i + 1..p.len() {
            if p[i] > p[j] {
                odd = !odd;
            }
        }
    }
    Some(odd)
}

pub fn check(s: &Snap, o: Opts) -> Report {
    let d = s.dim;
    let mut r = Report::default();
    let mut push = |r: &mut Report, level: u8, kind: &'static str, detail: String| {
        if r.issues.len() < 64 {
            r.issues.push(Issue { level, kind, detail });
        }
    };

    // ---------------- Level 1: elements ----------------
    for v in &s.verts {
        if v.coords.len() != d || v.coords.iter().any(|x| !x.is_finite()) {
            push(&mut r, 1, "vertex_nonfinite", format!("vertex {:#x} coords {:?}", v.key, v.coords));
        }
        if v.uuid == 0 {
            push(&mut r, 1, "vertex_uuid_nil", format!("vertex {:#x}", v.key));
        } else if !is_v4(v.uuid) {
            push(&mut r, 1, "vertex_uuid_version", format!("vertex {:#x} uuid {:032x}", v.key, v.uuid));
        }
    }
    let vidx = s.vindex();
    let cidx = s.cindex();
    let mut cells_wellformed = true;
    for c in &s.cells {
        if c.uuid == 0 {
            push(&mut r, 1, "cell_uuid_nil", format!("cell {:#x}", c.key));
        } else if !is_v4(c.uuid) {
            push(&mut r, 1, "cell_uuid_version", format!("cell {:#x}", c.key));
        }
        if c.verts.len() != d + 1 {
            push(&mut r, 1, "cell_vertex_count", format!("cell {:#x} has {} vertices", c.key, c.verts.len()));
            cells_wellformed = false;
        }
        let set: BTreeSet<u64> = c.verts.iter().copied().collect();
        if set.len() != c.verts.len() {
            push(&mut r, 1, "cell_repeated_vertex", format!("cell {:#x} verts {:x?}", c.key, c.verts));
            cells_wellformed = false;
        }
        if let Some(n) = &c.neighbors {
            if n.len() != d + 1 {
                push(&mut r, 1, "cell_neighbor_len", format!("cell {:#x} has {} neighbour slots", c.key, n.len()));
                cells_wellformed = false;
            }
        }
    }

    // ---------------- Level 2: structure ----------------
    if s.n_vertices_reported != s.verts.len() {
        push(&mut r, 2, "vertex_count_mismatch", format!("reported {} iterated {}", s.n_vertices_reported, s.verts.len()));
    }
    if s.n_cells_reported != s.cells.len() {
        push(&mut r, 2, "cell_count_mismatch", format!("reported {} iterated {}", s.n_cells_reported, s.cells.len()));
    }
    {
        let mut seen: HashMap<u128, u64> = HashMap::new();
        for v in &s.verts {
            if let Some(prev) = seen.insert(v.uuid, v.key) {
                push(&mut r, 2, "vertex_uuid_duplicate", format!("vertices {:#x} and {:#x} share uuid", prev, v.key));
            }
            if v.uuid_lookup != Some(v.key) {
                push(&mut r, 2, "vertex_uuid_map", format!("uuid->key of vertex {:#x} gives {:x?}", v.key, v.uuid_lookup));
            }
            if v.key_lookup != Some(v.uuid) {
                push(&mut r, 2, "vertex_key_map", format!("key->uuid of vertex {:#x} gives {:x?}", v.key, v.key_lookup));
            }
        }
        let mut seen: HashMap<u128, u64> = HashMap::new();
        for c in &s.cells {
            if let Some(prev) = seen.insert(c.uuid, c.key) {
                push(&mut r, 2, "cell_uuid_duplicate", format!("cells {:#x} and {:#x} share uuid", prev, c.key));
            }
            if c.uuid_lookup != Some(c.key) {
                push(&mut r, 2, "cell_uuid_map", format!("uuid->key of cell {:#x} gives {:x?}", c.key, c.uuid_lookup));
            }
            if c.key_lookup != Some(c.uuid) {
                push(&mut r, 2, "cell_key_map", format!("key->uuid of cell {:#x} gives {:x?}", c.key, c.key_lookup));
            }
        }
    }
    let mut keys_ok = true;
    for c in &s.cells {
        for k in &c.verts {
            if !vidx.contains_key(k) {
                push(&mut r, 2, "cell_dangling_vertex", format!("cell {:#x} references missing vertex {:#x}", c.key, k));
                keys_ok = false;
            }
        }
    }
    for v in &s.verts {
        if let Some(ic) = v.incident_cell {
            match cidx.get(&ic) {
                None => push(&mut r, 2, "incident_cell_dangling", format!("vertex {:#x} -> missing cell {:#x}", v.key, ic)),
                Some(&ci) => {
                    if !s.cells[ci].verts.contains(&v.key) {
                        push(&mut r, 2, "incident_cell_wrong", format!("vertex {:#x} -> cell {:#x} not containing it", v.key, ic));
                    }
                }
            }
        }
    }

    if s.cells.is_empty() {
        r.bootstrap = true;
        return r;
    }
    if !cells_wellformed || !keys_ok {
        // derived invariants assume well-formed cells
        push(&mut r, 2, "malformed_cells", "structural checks skipped: malformed cells".into());
        push(&mut r, 3, "malformed_cells", "topological checks skipped: malformed cells".into());
        return r;
    }

    // duplicate cells (same vertex set; periodic offsets included when present)
    {
        let mut seen: HashMap<(Vec<u64>, Option<Vec<(u64, Vec<i8>)>>), u64> = HashMap::new();
        for c in &s.cells {
            let mut set = c.verts.clone();
            set.sort_unstable();
            let per = c.periodic.as_ref().map(|p| {
                let mut z: Vec<(u64, Vec<i8>)> = c.verts.iter().copied().zip(p.iter().cloned()).collect();
                z.sort();
                z
            });
            if let Some(prev) = seen.insert((set, per), c.key) {
                push(&mut r, 2, "duplicate_cell", format!("cells {:#x} and {:#x} have the same vertex set", prev, c.key));
            }
        }
    }

    // facet incidence by sorted key tuple
    let mut facets: BTreeMap<Vec<u64>, Vec<(usize, usize)>> = BTreeMap::new();
    for (ci, c) in s.cells.iter().enumerate() {
        for i in 0..=d {
            let mut f: Vec<u64> = c.verts.iter().enumerate().filter(|(j, _)| *j != i).map(|(_, &k)| k).collect();
            f.sort_unstable();
            facets.entry(f).or_default().push((ci, i));
        }
    }
    for (f, inc) in &facets {
        if inc.len() > 2 {
            push(&mut r, 2, "facet_overshared", format!("facet {:x?} in {} cells", f, inc.len()));
            push(&mut r, 3, "facet_degree", format!("facet {:x?} in {} cells", f, inc.len()));
        }
    }
    // neighbour relation
    for (f, inc) in &facets {
        match inc.as_slice() {
            [(ci, i)] => {
                let c = &s.cells[*ci];
                if let Some(n) = &c.neighbors {
                    if let Some(nk) = n[*i] {
                        let self_ok = o.periodic && nk == c.key;
                        if !self_ok {
                            push(&mut r, 2, "neighbor_on_boundary_facet", format!("cell {:#x}[{}] -> {:#x} across boundary facet {:x?}", c.key, i, nk, f));
                        }
                    }
                }
            }
            [(ca, ia), (cb, ib)] => {
                let (a, b) = (&s.cells[*ca], &s.cells[*cb]);
                let na = a.neighbors.as_ref().and_then(|n| n[*ia]);
                let nb = b.neighbors.as_ref().and_then(|n| n[*ib]);
                if na != Some(b.key) {
                    let kind = match na {
                        None => "neighbor_missing",
                        Some(k) if !cidx.contains_key(&k) => "neighbor_dangling",
                        _ => "neighbor_wrong",
                    };
                    push(&mut r, 2, kind, format!("cell {:#x}[{}] -> {:x?}, expected {:#x}", a.key, ia, na, b.key));
                }
                if nb != Some(a.key) {
                    let kind = match nb {
                        None => "neighbor_missing",
                        Some(k) if !cidx.contains_key(&k) => "neighbor_dangling",
                        _ => "neighbor_wrong",
                    };
                    push(&mut r, 2, kind, format!("cell {:#x}[{}] -> {:x?}, expected {:#x}", b.key, ib, nb, a.key));
                }
                // coherent orientation (skipped for periodic-lifted cells, as documented)
                if a.periodic.is_none() && b.periodic.is_none() {
                    let fa: Vec<u64> = a.verts.iter().enumerate().filter(|(j, _)| j != ia).map(|(_, &k)| k).collect();
                    let fb: Vec<u64> = b.verts.iter().enumerate().filter(|(j, _)| j != ib).map(|(_, &k)| k).collect();
                    if let Some(odd) = perm_parity_odd(&fa, &fb) {
                        let sign = if (ia + ib) % 2 == 0 { 1 } else { -1 } * if odd { -1 } else { 1 };
                        if sign != -1 {
                            push(&mut r, 2, "incoherent_orientation", format!("cells {:#x}[{}] / {:#x}[{}] induce the same orientation on their common facet", a.key, ia, b.key, ib));
                        }
                    }
                }
            }
            _ => {}
        }
    }
    // any neighbour pointer not explained by a shared facet (dangling, or pointing at a non-adjacent cell)
    for c in &s.cells {
        if let Some(n) = &c.neighbors {
            for (i, nk) in n.iter().enumerate() {
                let Some(nk) = nk else { continue };
                match cidx.get(nk) {
                    None => push(&mut r, 2, "neighbor_dangling", format!("cell {:#x}[{}] -> missing cell {:#x}", c.key, i, nk)),
                    Some(&ni) => {
                        if *nk == c.key && o.periodic {
                            continue;
                        }
                        let mut f: Vec<u64> = c.verts.iter().enumerate().filter(|(j, _)| *j != i).map(|(_, &k)| k).collect();
                        f.sort_unstable();
                        let other: BTreeSet<u64> = s.cells[ni].verts.iter().copied().collect();
                        if !f.iter().all(|k| other.contains(k)) || other.contains(&c.verts[i]) && !o.periodic {
                            push(&mut r, 2, "neighbor_not_adjacent", format!("cell {:#x}[{}] -> {:#x} which does not share that facet", c.key, i, nk));
                        }
                    }
                }
            }
        }
    }

    // ---------------- Level 3: topology ----------------
    let mut boundary_facets: Vec<&Vec<u64>> = Vec::new();
    for (f, inc) in &facets {
        if inc.len() == 1 {
            boundary_facets.push(f);
        }
    }
    r.boundary_facets = boundary_facets.len();
    // closed boundary: every ridge of a boundary facet in exactly two boundary facets
    if d >= 2 {
        let mut ridge_count: BTreeMap<Vec<u64>, usize> = BTreeMap::new();
        for f in &boundary_facets {
            for i in 0..f.len() {
                let rg: Vec<u64> = f.iter().enumerate().filter(|(j, _)| *j != i).map(|(_, &k)| k).collect();
                *ridge_count.entry(rg).or_default() += 1;
            }
        }
        for (rg, n) in &ridge_count {
            if *n != 2 && !o.periodic {
                push(&mut r, 3, "boundary_not_closed", format!("boundary ridge {:x?} in {} boundary facets", rg, n));
            }
        }
    }
    // connectedness through shared facets
    {
        let n = s.cells.len();
        let mut adj: Vec<Vec<usize>> = vec![Vec::new(); n];
        for inc in facets.values() {
            for a in 0..inc.len() {
                for b in a + 1..inc.len() {
                    adj[inc[a].0].push(inc[b].0);
                    adj[inc[b].0].push(inc[a].0);
                }
            }
        }
        let mut seen = vec![false; n];
        let mut stack = vec![0usize];
        seen[0] = true;
        let mut cnt = 1;
        while let Some(x) = stack.pop() {
            for &y in &adj[x] {
                if !seen[y] {
                    seen[y] = true;
                    cnt += 1;
                    stack.push(y);
                }
            }
        }
        if cnt != n {
            push(&mut r, 3, "disconnected", format!("{} of {} cells reachable through shared facets", cnt, n));
        }
    }
    // isolated vertices
    {
        let used: HashSet<u64> = s.cells.iter().flat_map(|c| c.verts.iter().copied()).collect();
        for v in &s.verts {
            if !used.contains(&v.key) {
                push(&mut r, 3, "isolated_vertex", format!("vertex {:#x} {:?} is in no cell", v.key, v.coords));
            }
        }
    }
    // f-vector by full face enumeration
    {
        let mut faces: Vec<HashSet<Vec<u64>>> = vec![HashSet::new(); d + 1];
        for c in &s.cells {
            let mut vs = c.verts.clone();
            vs.sort_unstable();
            for mask in 1u32..(1 << (d + 1)) {
                let k = mask.count_ones() as usize - 1;
                let f: Vec<u64> = (0..=d).filter(|i| mask & (1 << i) != 0).map(|i| vs[i]).collect();
                faces[k].insert(f);
            }
        }
        // isolated vertices count as 0-simplices of the complex
        let mut f0 = faces[0].len() as i64;
        for v in &s.verts {
            if !faces[0].contains(&vec![v.key]) {
                f0 += 1;
            }
        }
        r.f_vector = (0..=d).map(|k| if k == 0 { f0 } else { faces[k].len() as i64 }).collect();
        r.chi = r.f_vector.iter().enumerate().map(|(k, &f)| if k % 2 == 0 { f } else { -f }).sum();
        // boundary complex
        let mut bfaces: Vec<HashSet<Vec<u64>>> = vec![HashSet::new(); d];
        for f in &boundary_facets {
            for mask in 1u32..(1 << d) {
                let k = mask.count_ones() as usize - 1;
                let g: Vec<u64> = (0..d).filter(|i| mask & (1 << i) != 0).map(|i| f[i]).collect();
                bfaces[k].insert(g);
            }
        }
        let bchi: i64 = bfaces.iter().enumerate().map(|(k, f)| if k % 2 == 0 { f.len() as i64 } else { -(f.len() as i64) }).sum();
        r.boundary_chi = Some(bchi);
        if o.euler && !o.periodic {
            if r.chi != 1 {
                let msg = format!("chi = {} (f = {:?}), expected 1 for a ball", r.chi, r.f_vector);
                push(&mut r, 3, "euler_characteristic", msg);
            }
            let expect = 1 + if (d - 1) % 2 == 0 { 1 } else { -1 };
            if o.boundary_euler && bchi != expect {
                push(&mut r, 3, "boundary_euler", format!("boundary chi = {}, expected {} for a (D-1)-sphere", bchi, expect));
            }
        }
    }
    // ridge links (PLManifold, PLManifoldStrict)
    let facet_degree_ok = !r.has("facet_degree");
    if o.guarantee != Guarantee::Pseudomanifold && d >= 2 && facet_degree_ok && !o.periodic {
        // ridge -> list of link edges (pairs of the two vertices of the cell not in the ridge)
        let mut links: BTreeMap<Vec<u64>, Vec<(u64, u64)>> = BTreeMap::new();
        for c in &s.cells {
            for i in 0..=d {
                for j in i + 1..=d {
                    let mut rg: Vec<u64> = c.verts.iter().enumerate().filter(|(k, _)| *k != i && *k != j).map(|(_, &k)| k).collect();
                    rg.sort_unstable();
                    links.entry(rg).or_default().push((c.verts[i], c.verts[j]));
                }
            }
        }
        for (rg, edges) in &links {
            // degree of each link vertex
            let mut deg: BTreeMap<u64, usize> = BTreeMap::new();
            let mut adj: BTreeMap<u64, Vec<u64>> = BTreeMap::new();
            for &(a, b) in edges {
                *deg.entry(a).or_default() += 1;
                *deg.entry(b).or_default() += 1;
                adj.entry(a).or_default().push(b);
                adj.entry(b).or_default().push(a);
            }
            let ones = deg.values().filter(|&&x| x == 1).count();
            let bad = deg.values().any(|&x| x > 2);
            // connected?
            let start = *deg.keys().next().unwrap();
            let mut seen: BTreeSet<u64> = BTreeSet::new();
            let mut st = vec![start];
            seen.insert(start);
            while let Some(x) = st.pop() {
                for &y in &adj[&x] {
                    if seen.insert(y) {
                        st.push(y);
                    }
                }
            }
            let connected = seen.len() == deg.len();
            // distinct edges? (duplicate cells would repeat an edge)
            let is_cycle = !bad && connected && ones == 0;
            let is_path = !bad && connected && ones == 2;
            if !(is_cycle || is_path) {
                push(&mut r, 3, "ridge_link", format!("link of ridge {:x?} is neither a cycle nor a path ({} edges)", rg, edges.len()));
            }
        }
    }
    // vertex links
    let want_vlinks = match o.guarantee {
        Guarantee::PLManifoldStrict => true,
        Guarantee::PLManifold => o.completion,
        Guarantee::Pseudomanifold => false,
    };
    if want_vlinks && facet_degree_ok && !o.periodic {
        let bverts: HashSet<u64> = boundary_facets.iter().flat_map(|f| f.iter().copied()).collect();
        let mut star: BTreeMap<u64, Vec<usize>> = BTreeMap::new();
        for (ci, c) in s.cells.iter().enumerate() {
            for &k in &c.verts {
                star.entry(k).or_default().push(ci);
            }
        }
        for (v, cs) in &star {
            if let Some(msg) = vertex_link_issue(s, d, *v, cs, bverts.contains(v)) {
                push(&mut r, 3, "vertex_link", format!("vertex {:#x}: {}", v, msg));
            }
        }
    }
    // geometric orientation of stored cells
    if o.geometric_orientation && !o.periodic && s.all_finite() {
        let pts = s.points();
        let sp = ScaledPoints::new(&pts);
        for c in &s.cells {
            let idx: Vec<usize> = c.verts.iter().map(|k| vidx[k]).collect();
            let sg = sp.orient(&idx);
            if sg > 0 && o.band_positive {
                let m = orientation_matrix(&idx.iter().map(|&i| pts[i].clone()).collect::<Vec<_>>());
                if analyze(&m, 1e-15).decision != Decision::Sign(1) {
                    r.orient_in_band += 1;
                }
            }
            if sg <= 0 {
                // only a violation when decidable
                let m = orientation_matrix(&idx.iter().map(|&i| pts[i].clone()).collect::<Vec<_>>());
                let b = analyze(&m, 1e-15);
                match b.decision {
                    Decision::Sign(-1) => push(&mut r, 3, "cell_negative_orientation", format!("cell {:#x} is negatively oriented (det≈{:e})", c.key, b.det.approx())),
                    Decision::Zero => push(&mut r, 3, "cell_degenerate", format!("cell {:#x} is exactly flat", c.key)),
                    _ => r.orient_in_band += 1,
                }
            }
        }
    }
    r
}

/// Link of v: the (D-1)-simplices `cell \ {v}`.  Must be a connected (D-1)-pseudomanifold, closed
/// iff v is interior; for D <= 3 additionally with sphere/ball Euler characteristic and (ball case)
/// a single boundary cycle.
fn vertex_link_issue(s: &Snap, d: usize, v: u64, cells: &[usize], on_boundary: bool) -> Option<String> {
    let simplices: Vec<Vec<u64>> = cells
        .iter()
        .map(|&ci| {
            let mut f: Vec<u64> = s.cells[ci].verts.iter().copied().filter(|&k| k != v).collect();
            f.sort_unstable();
            f
        })
        .collect();
    if d == 1 {
        let n = simplices.len();
        return if (on_boundary && n == 1) || (!on_boundary && n == 2) { None } else { Some(format!("1D link has {n} points")) };
    }
    // (D-2)-faces of link facets
    let mut sub: BTreeMap<Vec<u64>, Vec<usize>> = BTreeMap::new();
    for (i, f) in simplices.iter().enumerate() {
        for j in 0..f.len() {
            let g: Vec<u64> = f.iter().enumerate().filter(|(k, _)| *k != j).map(|(_, &k)| k).collect();
            sub.entry(g).or_default().push(i);
        }
    }
    let mut open = 0usize;
    for (g, inc) in &sub {
        match inc.len() {
            1 => open += 1,
            2 => {}
            n => return Some(format!("link face {:x?} lies in {} link facets", g, n)),
        }
    }
    if on_boundary && open == 0 {
        return Some("boundary vertex has a closed link".into());
    }
    if !on_boundary && open != 0 {
        return Some(format!("interior vertex has an open link ({} free faces)", open));
    }
    // connectedness via shared (D-2)-faces
    let n = simplices.len();
    let mut adj: Vec<Vec<usize>> = vec![Vec::new(); n];
    for inc in sub.values() {
        if inc.len() == 2 {
            adj[inc[0]].push(inc[1]);
            adj[inc[1]].push(inc[0]);
        }
    }
    let mut seen = vec![false; n];
    let mut st = vec![0usize];
    seen[0] = true;
    let mut cnt = 1;
    while let Some(x) = st.pop() {
        for &y in &adj[x] {
            if !seen[y] {
                seen[y] = true;
                cnt += 1;
                st.push(y);
            }
        }
    }
    if cnt != n {
        return Some(format!("link is disconnected ({} of {} facets reachable)", cnt, n));
    }
    if d == 2 {
        // link is a 1-complex: connected with degrees <= 2 and the right number of ends => cycle/path
        return None;
    }
    if d == 3 {
        // Euler characteristic of the 2-dimensional link: sphere 2, disk 1 (+ single boundary cycle)
        let mut f0: BTreeSet<u64> = BTreeSet::new();
        for f in &simplices {
            f0.extend(f.iter().copied());
        }
        let chi = f0.len() as i64 - sub.len() as i64 + n as i64;
        let expect = if on_boundary { 1 } else { 2 };
        if chi != expect {
            return Some(format!("link Euler characteristic {} (expected {})", chi, expect));
        }
        if on_boundary {
            // boundary edges must form one cycle
            let mut deg: BTreeMap<u64, usize> = BTreeMap::new();
            let mut badj: BTreeMap<u64, Vec<u64>> = BTreeMap::new();
            for (g, inc) in &sub {
                if inc.len() == 1 {
                    *deg.entry(g[0]).or_default() += 1;
                    *deg.entry(g[1]).or_default() += 1;
                    badj.entry(g[0]).or_default().push(g[1]);
                    badj.entry(g[1]).or_default().push(g[0]);
                }
            }
            if deg.values().any(|&x| x != 2) {
                return Some("link boundary is not a 1-manifold".into());
            }
            let start = *deg.keys().next().unwrap();
            let mut seen: BTreeSet<u64> = BTreeSet::new();
            let mut st = vec![start];
            seen.insert(start);
            while let Some(x) = st.pop() {
                for &y in &badj[&x] {
                    if seen.insert(y) {
                        st.push(y);
                    }
                }
            }
            if seen.len() != deg.len() {
                return Some("link boundary has several components".into());
            }
        }
    }
    None
}

#[cfg(test)]
mod tests {
    use super::*;
    #[test]
    fn parity() {
        assert_eq!(perm_parity_odd(&[1, 2, 3], &[1, 2, 3]), Some(false));
        assert_eq!(perm_parity_odd(&[1, 2, 3], &[2, 1, 3]), Some(true));
        assert_eq!(perm_parity_odd(&[1, 2, 3], &[2, 3, 1]), Some(false));
        assert!(is_v4(0x0000_0000_0000_4000_8000_0000_0000_0001));
        assert!(!is_v4(1));
    }
}
