//! Scratch triage tool: rebuild a C01 replay case and print the library's own verdicts next to
//! the exact oracle's.  Not used by any registered check.
use delaunay::core::delaunay_triangulation::DelaunayTriangulation;
use delaunay::core::util::delaunay_validation::find_delaunay_violations;
use delaunay::geometry::kernel::{FastKernel, Kernel, RobustKernel};
use delaunay::geometry::point::Point;
use delaunay::geometry::traits::coordinate::Coordinate;
use dvcheck::exact::geom::ScaledPoints;
use dvcheck::gen::world::*;
use dvcheck::oracle::snap::Snap;
use dvcheck::props::c01::{build_generic, input_vertices, Case};

fn go<const D: usize>(case: &Case) {
    let verts = input_vertices::<i32, D>(&case.points.pts, case.uuid_salt, case.with_data);
    let b = build_generic::<FastKernel<f64>, i32, D>(case.entry as usize, &case.opts, &verts);
    let b = match b {
        Ok(b) => b,
        Err(e) => {
            println!("Err: {e}");
            return;
        }
    };
    let dt: &DelaunayTriangulation<FastKernel<f64>, i32, (), D> = &b.dt;
    println!("cells={} verts={}", dt.number_of_cells(), dt.number_of_vertices());
    println!("validate: {:?}", dt.validate().map_err(|e| e.to_string()));
    println!("is_valid: {:?}", dt.is_valid().map_err(|e| e.to_string()));
    println!("tri.validate: {:?}", dt.as_triangulation().validate().map_err(|e| e.to_string()));
    println!("find_delaunay_violations: {:?}", find_delaunay_violations(dt.tds(), None).map(|v| v.len()).map_err(|e| e.to_string()));
    let s = Snap::of(dt.tds());
    let pts = s.points();
    let sp = ScaledPoints::new(&pts);
    let cells = s.cell_indices().unwrap();
    let fk = FastKernel::<f64>::new();
    let rk = RobustKernel::<f64>::new();
    let mut shown = 0;
    for (ci, c) in cells.iter().enumerate() {
        for q in 0..pts.len() {
            if c.contains(&q) {
                continue;
            }
            if sp.insphere(c, q) == Some(1) {
                let simplex: Vec<Point<f64, D>> = c.iter().map(|&i| mk_point::<D>(&pts[i])).collect();
                let qp = mk_point::<D>(&pts[q]);
                let f = Kernel::<D>::in_sphere(&fk, &simplex, &qp);
                let r = Kernel::<D>::in_sphere(&rk, &simplex, &qp);
                if shown < 5 {
                    println!("exact INSIDE: cell {ci} {:?} q {q} {:?}; fast={:?} robust={:?} orient={}", c, pts[q], f, r, sp.orient(c));
                    for &i in c { println!("    {:?}", pts[i]); }
                }
                shown += 1;
            }
        }
    }
    println!("total exact strict violations: {shown}");
    let cert = dvcheck::oracle::certify::certify(&s, &dvcheck::oracle::certify::CertOpts { levels: dvcheck::oracle::levels::Opts::euclid(dvcheck::oracle::levels::Guarantee::PLManifold, true), delaunay: true, convex: true, coverage: true, reference: true });
    println!("problems: {:#?}", cert.problems());
    println!("convex_in_band={} class={} gp={:?} ref_equal={:?} chi={} bchi={:?} fvec={:?}", cert.convex_in_band, cert.violation_class, cert.general_position, cert.ref_equal, cert.levels.chi, cert.levels.boundary_chi, cert.levels.f_vector);
    if pts.len() <= 8 {
        let sample = vec![43980465111040.0, 26388279066624.0, 0.0003255208333333333, 17592186044416.0, 70368744177664.0];
        if sample.len() == D {
            let mut all = pts.clone();
            all.push(sample);
            let spa = ScaledPoints::new(&all);
            let verts: Vec<usize> = (0..pts.len()).collect();
            println!("pts {:?}", pts);
            println!("cell {:?} signs {:?} hull {:?}", cells[0], spa.barycentric_signs(&cells[0], pts.len()), dvcheck::exact::geom::hull_side(&spa, &verts, pts.len()));
        }
    }
    let bf = dvcheck::oracle::delaunay::boundary_facets(&cells);
    println!("boundary facets: {}", bf.len());
    for (f, opp) in &bf {
        let so = sp.side(f, *opp);
        let mut outside = vec![];
        for q in 0..pts.len() { if sp.side(f, q) * so < 0 { outside.push(q); } }
        if !outside.is_empty() { println!("  facet {:?} opp {} has outside vertices {:?}", f, opp, outside); }
    }
}

fn main() {
    let path = std::env::args().nth(1).unwrap();
    let v: serde_json::Value = serde_json::from_str(&std::fs::read_to_string(path).unwrap()).unwrap();
    let case: Case = serde_json::from_value(v["case"].clone()).unwrap();
    match case.dim {
        2 => go::<2>(&case),
        3 => go::<3>(&case),
        4 => go::<4>(&case),
        5 => go::<5>(&case),
        _ => {}
    }
}
