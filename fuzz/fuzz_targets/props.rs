//! Generic coverage-guided target: the input bytes are the random stream of the proptest strategy of
//! the property named by $DVFUZZ_PROP (see dvcheck::props::fuzz_bytes); the property's own oracle
//! runs inside the target.  An unknown violation is written as a replay file into $DVFUZZ_OUT and
//! the process aborts, so libFuzzer also keeps the triggering input.
#![no_main]
use dvcheck::driver::ctx::{install_panic_hook, Ctx, Tier};
use dvcheck::driver::known::KnownFindings;
use libfuzzer_sys::fuzz_target;
use std::cell::RefCell;

thread_local! {
    static CTX: RefCell<Option<(String, Ctx)>> = const { RefCell::new(None) };
}

fuzz_target!(|data: &[u8]| {
    CTX.with(|slot| {
        let mut slot = slot.borrow_mut();
        let (prop, ctx) = slot.get_or_insert_with(|| {
            // replaces libFuzzer's abort-on-panic hook: library panics are caught and judged by the
            // property's oracle (a panic located in the library is a C19 violation, elsewhere it is ignored)
            install_panic_hook();
            let prop = std::env::var("DVFUZZ_PROP").unwrap_or_else(|_| "C19".to_string());
            let root = std::env::var("VERIF_ROOT").unwrap_or_else(|_| "/verif".to_string());
            let known = KnownFindings::load(&std::path::Path::new(&root).join("known_findings.json"));
            let profile = if cfg!(debug_assertions) { "relchk" } else { "release" };
            (prop.clone(), Ctx::new(&prop, profile, Tier::Thorough, 0, 0, 1, known))
        });
        if let Some((label, v, case)) = dvcheck::props::fuzz_bytes(prop, data, ctx) {
            let out = std::env::var("DVFUZZ_OUT").unwrap_or_else(|_| ".".to_string());
            let doc = serde_json::json!({"property": prop, "label": label, "case": case, "profile": if cfg!(debug_assertions) { "relchk" } else { "release" },
                "seed": 0, "tier": "thorough", "expect": "violation", "violation": v, "found_by": "libFuzzer"});
            let name = format!("{}/violation-fuzz-{:016x}.json", out, dvcheck::driver::ctx::str_seed(&doc["case"].to_string()));
            let _ = std::fs::write(&name, serde_json::to_vec_pretty(&doc).unwrap_or_default());
            eprintln!("DVFUZZ-VIOLATION {} {}/{}/{}: {}", name, v.property, v.kind, v.site, v.message.chars().take(300).collect::<String>());
            std::process::abort();
        }
    });
});
