//! C13, coverage-guided: any byte string offered to `Tds::deserialize` (through serde_json) is either
//! rejected or loads into a structure that passes the independent Level 1/2 checks, survives a
//! second round trip unchanged, and never panics.  First byte selects the dimension ('2','3','4').
#![no_main]
use delaunay::core::triangulation_data_structure::Tds;
use dvcheck::oracle::fingerprint::fingerprint;
use dvcheck::oracle::levels::{check, Opts};
use dvcheck::oracle::snap::Snap;
use libfuzzer_sys::fuzz_target;

fn judge<const D: usize>(txt: &str) {
    let Ok(tds) = serde_json::from_str::<Tds<f64, i32, i32, D>>(txt) else { return };
    let s = Snap::of(&tds);
    let rep = check(&s, Opts::structural_only());
    // open known finding C13-orientation-tampered-document-loads: incoherent orientation is the one
    // Level-2 inconsistency the loader is known (and pinned by the repository's tests) to accept
    if let Some(i) = rep.issues.iter().find(|i| i.level <= 2 && i.kind != "incoherent_orientation") {
        panic!("C13 VIOLATION inconsistent_input_loaded: L{} {}: {}", i.level, i.kind, i.detail);
    }
    // what was loaded must itself round-trip
    let again = serde_json::to_string(&tds).expect("a loaded Tds serialises");
    let Ok(t2) = serde_json::from_str::<Tds<f64, i32, i32, D>>(&again) else {
        if rep.issues.iter().any(|i| i.kind == "incoherent_orientation") {
            return;
        }
        panic!("C13 VIOLATION reserialised_document_rejected");
    };
    let (a, b) = (fingerprint(&s, "", true), fingerprint(&Snap::of(&t2), "", true));
    if a != b {
        panic!("C13 VIOLATION second_round_trip_differs: {}", dvcheck::oracle::fingerprint::diff(&a, &b));
    }
}

fuzz_target!(|data: &[u8]| {
    if data.len() < 2 {
        return;
    }
    let Ok(txt) = std::str::from_utf8(&data[1..]) else { return };
    match data[0] {
        b'2' => judge::<2>(txt),
        b'3' => judge::<3>(txt),
        b'4' => judge::<4>(txt),
        _ => {}
    }
});
