#!/usr/bin/env bash
# usage: tools/sweep_some.sh <tier> <seed> Cxx...   like sweep_all.sh for a chosen list of checks
TIER="$1"; SEED="$2"; shift 2
HERE="$(cd "$(dirname "$0")/.." && pwd)"; cd "$HERE"
for p in "$@"; do
  out=$(VERIF_SEED=$SEED ./run.sh $p $TIER 2>&1); code=$?
  echo "seed=$SEED $p exit=$code $(echo "$out" | grep -c '^VIOLATION') violations :: $(echo "$out" | grep "$p $TIER:" | tail -1 | cut -c1-160) || $(echo "$out" | grep 'fuzz stage' | tail -1 | cut -c1-120)"
  echo "$out" | grep "^  ->" | cut -c1-300
  mkdir -p sweep_out/some-$SEED; mv replays/$p/violation-*.json sweep_out/some-$SEED/ 2>/dev/null
done
