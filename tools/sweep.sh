#!/usr/bin/env bash
# usage: tools/sweep.sh <Cxx> <tier> seed...   (development aid: several seeds, summary of violation signatures)
PROP="$1"; TIER="$2"; shift 2
HERE="$(cd "$(dirname "$0")/.." && pwd)"
cd "$HERE"
for s in "$@"; do
  echo "=== $PROP $TIER seed=$s"
  VERIF_SEED=$s ./run.sh "$PROP" "$TIER" 2>&1 | grep -v "^proptest\|^KNOWN-FINDING\|^\[dedup" | cut -c1-500
  echo "exit=${PIPESTATUS[0]}"
  mkdir -p sweep_out/$PROP-$s && mv replays/$PROP/violation-*.json sweep_out/$PROP-$s/ 2>/dev/null
done
