#!/usr/bin/env bash
# usage: tools/with_seed.sh <patch-file> <Cxx> [quick|thorough|fuzz]  (fuzz = only the libFuzzer stage)
#   applies the patch to /repo under the exclusive
# repo lock, runs the check (built into a private target dir so concurrently running checks keep
# their binaries), reverts /repo, releases the lock.
PATCH="$(readlink -f "$1")"; P="$2"; TIER="${3:-quick}"
HERE="$(cd "$(dirname "$0")/.." && pwd)"
exec 8>"${TMPDIR:-/tmp}/dvcheck-repo.lock"; flock 8
git -C /repo diff --quiet || { echo "/repo has uncommitted changes: refusing (they would be lost by the revert)"; exit 2; }
git -C /repo apply --check "$PATCH" || { echo "patch does not apply"; exit 2; }
git -C /repo apply "$PATCH"
# the evidence file is rewritten by every run: keep the one from the unchanged tree
EV="$HERE/evidence/$P.json"; [ -f "$EV" ] && cp "$EV" "$EV.keep"
if [ "$TIER" = fuzz ]; then DVCHECK_REPO_LOCK_HELD=1 "$HERE/tools/fuzz_stage.sh" "$P"; code=$?; else DVCHECK_REPO_LOCK_HELD=1 "$HERE/run.sh" "$P" "$TIER"; code=$?; fi
[ -f "$EV.keep" ] && mv "$EV.keep" "$EV"
git -C /repo checkout -- . ; git -C /repo status --short | grep -v '^??' | head -3
flock -u 8
exit $code
