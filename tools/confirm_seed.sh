#!/usr/bin/env bash
# usage: confirm_seed.sh <Cxx> [suffix]  -- confirms an agent-delivered mutation in its worktree /tmp/wt-<Cxx><suffix>
P="$1"; SUF="${2:-}"; W=/tmp/wt-$P$SUF; L=$(echo $P | tr A-Z a-z)
cd $W || exit 2
export CARGO_NET_OFFLINE=true
OUT=/tmp/confirm-$P$SUF.log; : > $OUT
echo "== patch applies to HEAD cleanly?" >> $OUT
git checkout -q -- src; git apply --check DELIVER/patch.diff >> $OUT 2>&1 && echo "apply-check ok" >> $OUT; 
echo "== demo on ORIGINAL" >> $OUT
cp DELIVER/demo_$L.rs tests/demo_$L.rs 2>/dev/null
cargo test --offline $FEAT --test demo_$L 2>&1 | grep -E "^test result|^test .*(ok|FAILED)|error" | head -20 >> $OUT
git checkout -q -- src; git apply DELIVER/patch.diff
echo "== demo with PATCH" >> $OUT
cargo test --offline $FEAT --test demo_$L 2>&1 | grep -E "^test result|^test .*(ok|FAILED)|error" | head -20 >> $OUT
echo "== full suite with PATCH (excluding the demo)" >> $OUT
mv tests/demo_$L.rs /tmp/demo_$L$SUF.rs.keep
cargo test --offline --no-fail-fast 2>&1 | grep -E "^test result|FAILED|failed" | sort | uniq -c | sort -rn | head -20 >> $OUT
mv /tmp/demo_$L$SUF.rs.keep tests/demo_$L.rs
echo "== done" >> $OUT
