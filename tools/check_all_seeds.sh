#!/usr/bin/env bash
# usage: tools/check_all_seeds.sh [tier]   applies every stored seeded change in turn and runs the check of
# the property it was written against; prints one line per seed (CAUGHT / MISSED / n-a).
TIER="${1:-quick}"; FROM="${2:-}"   # optional: skip seeds whose name sorts before $FROM
HERE="$(cd "$(dirname "$0")/.." && pwd)"; cd "$HERE"
for d in seeded/*/; do
  name=$(basename "$d"); [ -n "$FROM" ] && [[ "$name" < "$FROM" ]] && continue; P=$(python3 -c "import json,sys;print(json.load(open('$d/meta.json'))['property'])")
  patch="$d/patch.diff"; [ -f "$d/patch_ported.diff" ] && patch="$d/patch_ported.diff"
  if ! git -C /repo apply --check "$HERE/$patch" 2>/dev/null; then echo "n-a     $name (patch does not apply to the current tree)"; continue; fi
  out=$(tools/with_seed.sh "$patch" "$P" "$TIER" 2>&1); code=$?
  rm -f replays/$P/violation-*.json replays/$P/hang-*.json
  if [ $code -eq 1 ]; then echo "CAUGHT  $name ($P) :: $(echo "$out" | grep -m1 '^  ->' | cut -c1-160)"; else echo "MISSED  $name ($P) exit=$code :: $(echo "$out" | tail -1 | cut -c1-120)"; fi
done
