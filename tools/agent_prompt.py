#!/usr/bin/env python3
"""Prints the prompt handed to an independent sub-agent for one property (nothing from /verif except the property text)."""
import json,sys
pid=sys.argv[1]
suf=sys.argv[2] if len(sys.argv)>2 else ''
p=[json.loads(l) for l in open('/verif/properties.jsonl') if json.loads(l)['id']==pid][0]
print(f"""You are helping to evaluate a verification tool by writing a realistic *bug injection* for a Rust library.

Your working copy is the git worktree /tmp/wt-{pid}{suf} (the Rust crate `delaunay` 0.7.1: D-dimensional Delaunay triangulation, incremental insertion, bistellar flips, validation levels). Work ONLY inside /tmp/wt-{pid}{suf}. Do not read or touch /verif or /repo. There is no network: always use `cargo ... --offline` (e.g. `CARGO_NET_OFFLINE=true cargo test --offline`). Put build output in the worktree's own target dir (default). Builds are slow (the crate is large): prefer `cargo test --offline --lib <filter>` and `cargo test --offline --test <name>` while iterating, and keep the number of full builds small.

The semantic property the library is supposed to satisfy:

  {pid} - {p['title']}
  Statement: {p['statement']}
  Quantified over: {p['quantifier']['text']}

Task: make a small source change to the library (under src/) that BREAKS this property, such that
  1. the crate still compiles without new warnings-as-errors, and the existing test suite still passes (run at least `cargo test --offline --lib` and the integration tests in tests/ that touch the code you changed; ideally the whole `cargo test --offline --no-fail-fast` once at the end — report exactly what you ran and the pass/fail counts; pre-existing failures that also fail without your change do not count against you, but say which they are);
  2. the breakage needs something specific to manifest - a multi-step sequence of operations, an unusual or degenerate input, a particular dimension/option combination, a fault or failure at a particular point, or two cooperating sites that each look fine alone - NOT something that any ordinary use or the existing tests would expose at once;
  3. it is realistic: the kind of mistake a maintainer could make in a refactor or optimisation (a dropped update of a cache, an off-by-one in a bound, a wrong comparison, a skipped re-validation on one path, a rollback that forgets one field, ...), not sabotage like `if x == 42`.

Also write a demonstration: a standalone Rust integration test file `tests/demo_{pid.lower()}.rs` in the worktree (using only the crate's public API) that FAILS with your change and PASSES on the original code (verify both by reverting and re-applying your patch with `git diff > /tmp/wt-{pid}{suf}/my.patch; git apply -R /tmp/wt-{pid}{suf}/my.patch` ... `git apply /tmp/wt-{pid}{suf}/my.patch`; do NOT use `git stash`: the stash is shared between worktrees and other people are working in sibling worktrees). Keep the demonstration minimal and deterministic.

Deliverables (write them into /tmp/wt-{pid}{suf}/DELIVER/):
  - patch.diff : `git diff` of your change to src/ only (not including the demo test)
  - demo_{pid.lower()}.rs : a copy of the demonstration test
  - notes.md : which property clause it breaks, what exactly is needed for it to manifest, the commands you ran with their results (with and without the patch).
Leave the worktree with the patch applied and the demo test present. Finish with a short summary of the same.
If your first idea turns out to be caught by the existing tests, pick another site rather than weakening the tests. Do not edit existing tests.""")
