#!/usr/bin/env bash
# usage: tools/fuzz_stage.sh <Cxx>     (second stage of the thorough tier; called by run.sh)
# Coverage-guided libFuzzer campaign over the property's own case decoder + oracle
# (fuzz/fuzz_targets/props.rs).  Fixed work: $DVFUZZ_JOBS processes x $DVFUZZ_RUNS executions, seeds
# derived from VERIF_SEED, fresh corpus directories (C13 starts from the committed seed documents).
# Prints "VIOLATION property=<id> replay=<path>" for every violation found, merges its counts into
# evidence/<id>.json and exits 0 (nothing found) / 1 (violation) / 2 (could not run).
set -u
P="$1"
HERE="$(cd "$(dirname "$0")/.." && pwd)"
export VERIF_ROOT="$HERE" CARGO_NET_OFFLINE=true
JOBS="${DVFUZZ_JOBS:-8}"; RUNS="${DVFUZZ_RUNS:-25000}"
# the raw-document target runs ~40k executions per second: give it ten times the executions
[ "$P" = C13 ] && [ -z "${DVFUZZ_RUNS:-}" ] && RUNS=250000
SEED="${VERIF_SEED:-20260926}"
case "$P" in C02|C03|C04|C06|C07|C09|C13|C15|C19) ;; *) exit 0;; esac
if ! cargo +nightly fuzz --version >/dev/null 2>&1; then echo "NOTE: cargo-fuzz / nightly not available, fuzz stage skipped"; exit 0; fi
mkdir -p "$HERE/fuzz/work"
# the build reads /repo's working tree (see run.sh)
if [ -z "${DVCHECK_REPO_LOCK_HELD:-}" ]; then exec 8>"${TMPDIR:-/tmp}/dvcheck-repo.lock"; flock -s 8; fi
exec 7>"$HERE/fuzz/work/.build.lock"; flock 7
if ! (cd "$HERE/fuzz" && cargo +nightly fuzz build --fuzz-dir "$HERE/fuzz" -s none props >"$HERE/fuzz/work/build.log" 2>&1); then
  tail -20 "$HERE/fuzz/work/build.log"; echo "FUZZ-BUILD-FAILED"; exit 2
fi
BIN="$HERE/fuzz/work/props-$P-$$"
cp "$HERE/fuzz/target/x86_64-unknown-linux-gnu/release/props" "$BIN" || exit 2
flock -u 7
if [ -z "${DVCHECK_REPO_LOCK_HELD:-}" ]; then flock -u 8; fi
W="$HERE/fuzz/work/$P-$$"; rm -rf "$W"; mkdir -p "$W" "$HERE/replays/$P"
MAXLEN=512; [ "$P" = C13 ] && MAXLEN=4096
T0=$(date +%s)
pids=()
for j in $(seq 1 "$JOBS"); do
  mkdir -p "$W/corpus-$j"
  [ -d "$HERE/fuzz/corpus/$P" ] && cp "$HERE/fuzz/corpus/$P"/* "$W/corpus-$j/" 2>/dev/null
  s=$(( (SEED % 2000000000) * 16 + j ))
  ( cd "$W" && DVFUZZ_PROP="$P" DVFUZZ_OUT="$HERE/replays/$P" "$BIN" "$W/corpus-$j" -runs="$RUNS" -seed="$s" -max_len=$MAXLEN -len_control=0 \
      -print_final_stats=1 -artifact_prefix="$W/artifact-$j-" -timeout=300 >"$W/log-$j.txt" 2>&1 ) &
  pids+=($!)
done
for p in "${pids[@]}"; do wait "$p"; done
T1=$(date +%s)
rm -f "$BIN"
python3 - "$P" "$W" "$HERE" "$JOBS" "$RUNS" "$SEED" "$((T1-T0))" <<'PY'
import sys, re, json, glob, os
p, w, here, jobs, runs, seed, secs = sys.argv[1:]
execs = 0; cov = 0; corp = 0; viol = []; other = []
for f in sorted(glob.glob(w + "/log-*.txt")):
    t = open(f, errors="replace").read()
    m = re.search(r"stat::number_of_executed_units:\s*(\d+)", t); execs += int(m.group(1)) if m else 0
    for m in re.finditer(r"cov: (\d+) ft: \d+ corp: (\d+)", t): cov = max(cov, int(m.group(1))); corp = max(corp, int(m.group(2)))
    for m in re.finditer(r"^DVFUZZ-VIOLATION (\S+) (.*)$", t, re.M): viol.append((m.group(1), m.group(2)))
    if ("deadly signal" in t or "ERROR: libFuzzer" in t) and "DVFUZZ-VIOLATION" not in t:
        other.append(os.path.basename(f) + ": " + " | ".join(l for l in t.splitlines() if "ERROR" in l or "panicked" in l)[:300])
ev_path = os.path.join(here, "evidence", p + ".json")
try:
    ev = json.load(open(ev_path))
    ev["coverage"]["fuzz"] = {"engine": "libFuzzer (cargo-fuzz), bytes decoded into the property's case type, oracle inside the target", "processes": int(jobs), "runs_requested_per_process": int(runs),
                              "executions": execs, "edges_covered_max": cov, "corpus_units_max": corp, "seed": int(seed), "seconds": int(secs), "violations": len(viol), "inconclusive": other}
    ev["coverage"]["evaluations"] = int(ev["coverage"].get("evaluations", 0)) + execs
    if viol: ev["violations"] = int(ev.get("violations", 0)) + len(viol)
    json.dump(ev, open(ev_path, "w"), indent=1)
except Exception as e:
    print("NOTE: evidence not updated:", e)
seen = set()
for path, msg in viol:
    if path in seen: continue
    seen.add(path)
    print("  -> [fuzz] " + msg[:400])
    print(f"VIOLATION property={p} replay={path}")
print(f"{p} fuzz stage: {execs} executions in {jobs} processes, {cov} edges, corpus {corp}, {len(seen)} violations, {secs}s" + (f", INCONCLUSIVE: {other}" if other else ""))
sys.exit(1 if seen else (2 if other else 0))
PY
code=$?
[ $code -eq 0 ] && rm -rf "$W"
exit $code
