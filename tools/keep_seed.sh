#!/usr/bin/env bash
# usage: keep_seed.sh <Cxx> <name> "<needs>" "<what I ran>" [worktree-suffix]
P="$1"; NAME="$2"; NEEDS="$3"; RAN="$4"; SUF="${5:-}"; W=/tmp/wt-$P$SUF; L=$(echo $P | tr A-Z a-z)
D=/verif/seeded/$NAME; mkdir -p $D
cp $W/DELIVER/patch.diff $D/patch.diff
cp $W/DELIVER/demo_$L.rs $D/ 2>/dev/null
cp $W/DELIVER/notes.md $D/agent_notes.md 2>/dev/null
cp /tmp/confirm-$P$SUF.log $D/confirm.log 2>/dev/null
python3 - "$P" "$NEEDS" "$RAN" "$D" <<'PY'
import json,sys
p,needs,ran,d=sys.argv[1:]
json.dump({"property":p,"breaks":p,"needs_to_manifest":needs,"what_i_ran":ran,"origin":"independent sub-agent given only the property text and a scratch worktree"},open(d+"/meta.json","w"),indent=1)
PY
echo kept $D
