#!/usr/bin/env python3
"""Regenerates MANIFEST.json from the table below (kept in one place so it stays valid)."""
import json, subprocess, sys
CHECKS = {
  "C01": dict(level="exploration", technique="property-based testing (proptest point-set and option generators, both build profiles) against an independent oracle: own L1-L3 recomputation, exact big-integer empty-circumsphere / convexity / coverage tests, brute-force reference Delaunay triangulation",
     text="Every Ok result of every batch entry point over generated degenerate and general inputs (D 2-5, both kernels, all option combinations) is certified independently; failures are shrunk. Sampling: no absence claim; sizes bounded (n<=40 in 2D ... 11 in 5D).",
     note="Trusted: the harness' exact arithmetic and level checker (self-tested); documented tolerance band and perturbation bound. Err results are never judged.", ref="3 C01"),
  "C02": dict(level="exploration", technique="stateful property-based testing: generated insertion/policy histories interpreted against a vertex-set model with the independent L1-L3 oracle after every call",
     text="Model-based histories of insert / insert_with_statistics with state-relative points (on-facet, on-hull, duplicates, collinear bootstrap prefixes) and mid-history policy changes; invariant checked after every call; shrinks to minimal histories.",
     note="Vertex links demanded per insertion only under PLManifoldStrict; Delaunay level only under EveryN(1). Trusted: harness oracle.", ref="3 C02"),
  "C04": dict(level="exploration", technique="stateful property-based testing, differential of six library verdicts against the exact big-integer empty-circumsphere oracle on deliberately non-Delaunay reachable states",
     text="Legal flips, repair-less insertions and removals drive constructed triangulations away from Delaunay; on every independently valid state each validator's accept/reject is compared with the exact strict-violation list (soundness), and on general-position states with decidable determinants with the absence of violations (completeness).",
     note="Only decidable (outside tolerance+rounding band) violations count. Known root causes are excluded per (validator family, cause).", ref="3 C04"),
  "C05": dict(level="fault_enumeration", technique="fault-injection property-based testing: per-instance enumeration of 29 single-fault classes (and fault pairs on small instances) on copies of library-built triangulations, differential of every validator verdict against the independent per-level recomputation",
     text="On generated library-built triangulations (D 2-5, every topology guarantee) every instance of each fault class is injected through feature-gated raw mutators; the lowest level the independent reference finds broken must be rejected by the validator owning it and by every cumulative validator, intact levels must be accepted (incl. harmless faults and the uncorrupted instance), cumulative validators must equal the conjunction of their levels and validation_report().is_ok() must equal validate().is_ok().",
     note="Levels above the lowest broken one are not judged. Euler expectation mirrors the documented classification (ball 1, closed 1+(-1)^D). Cells whose exact orientation lies inside the tolerance band are not judged.", ref="3 C05"),
  "C06": dict(level="exploration", technique="stateful property-based testing: generated removal/insertion histories (incl. draining to the bootstrap state, unknown vertices) with independent L1-L3 + exact Delaunay oracle and fingerprint equality",
     text="Every successful remove_vertex in generated histories is checked for vertex-set exactness, independent levels and (when repair is on and the pre-state was Delaunay) the exact Delaunay level; unknown vertices must be no-ops.",
     note="Returned cell count only constrained for unknown vertices. Known findings excluded by exact fact signature.", ref="3 C06"),
  "C07": dict(level="exploration", technique="stateful property-based testing with per-instance exhaustive handle enumeration: generated flip sequences and Pachner walks from a single simplex, every facet/ridge/edge/triangle/cell/vertex handle tried on a clone, metamorphic do/undo oracle plus independent combinatorial invariants",
     text="Every successful flip is checked for L1/L2, facet degrees, closed boundary, connectedness, Euler characteristic, boundary facet set, vertex set, prescribed cell-count change and exact FlipInfo contents, then undone through the inverse handle and compared with the original cell set.",
     note="Geometric embedding not demanded of the Edit API; a refused inverse move is recorded only.", ref="3 C07"),
  "C08": dict(level="exploration", technique="stateful property-based testing: generated perturbation sequences then a repair call, judged by the independent L1-L3 oracle, the exact Delaunay oracle and the brute-force reference triangulation",
     text="Certified convex pre-states moved away from Delaunay by generated flips/removals/insertions are repaired through both entry points; success must preserve the vertex set, the levels and yield an exactly Delaunay result (equal to the reference triangulation in general position).",
     note="Flip budget not observable without hooks; admissibility gate follows the code's public predicate.", ref="3 C08"),
  "C09": dict(level="exploration", technique="stateful property-based testing: generated histories over insert/remove/Edit-API flips/repair/clone followed by probe insertions on the duplicate-tolerance ladder decided in exact rational arithmetic",
     text="After every step and for every final vertex, probes at 0..1e-6 from live vertices, with live UUIDs, and at former positions of removed vertices must get the outcome the property prescribes.",
     note="Tolerance 1e-10 with a 1e-6 relative band; probes only on triangulations with cells; serde round trips covered by C13.", ref="3 C09"),
  "C10": dict(level="exploration", technique="property-based testing with per-instance exhaustive query/hint grids against exact point-in-simplex and brute-force hull-side oracles",
     text="On independently certified triangulations every vertex, barycentre, facet/edge midpoint, hull point, beyond-hull point and bounding-box grid point is located under every kind of hint; the returned cell must contain the point exactly, Outside must mean strictly outside the hull, the class must not depend on the hint and the statistics variant must agree.",
     note="Only queries decidable against every facet hyperplane are judged. Stale keys modelled as same slot, later version.", ref="3 C10"),
  "C11": dict(level="exploration", technique="stateful property-based testing: hull creation inside generated histories, exact visibility / hull-side oracle for the static part and a fingerprint-change oracle for staleness",
     text="On certified states the hull must be exactly the one-cell facets, closed, with all vertices inside and all six queries exact for decidable query points; after any generated mutation that changes the vertex/cell/neighbour fingerprint every query must report staleness.",
     note="Policy-only changes are not changes to the triangulation. Facets coplanar with the query (or in band) are not judged.", ref="3 C11"),
  "C12": dict(level="exploration", technique="property-based testing: exhaustive tiny-grid enumeration + proptest generation against an exact big-integer determinant oracle with an explicit tolerance/rounding band",
     text="Every predicate entry point (fast, robust x 4 configs, lifted, both kernels) is compared with the exact sign on every ordered tuple of the 3x3 grid and the unit cube and on generated D=2..5 tuples under vertex permutations; violations are shrunk by proptest. Sampling beyond the exhaustive grids: no absence claim.",
     note="Trusted: the harness' own BigInt/determinant code (unit- and identity-tested), the documented tolerance formula, the a-posteriori GEPP rounding bound (DESIGN 2.1).", ref="3 C12"),
  "C13": dict(level="fault_enumeration", technique="round-trip property-based testing plus per-document enumeration of single-field JSON corruptions, judged by fingerprint equality and the independent L1/L2 oracle",
     text="Reachable triangulations (with removals, vertex and cell data) are round-tripped at Tds and DelaunayTriangulation level and must come back identical, equal, equally valid and equally usable; every single-field corruption of the document must be rejected or load into a structure that passes independent L1/L2.",
     note="serde_json is used with float_roundtrip (without it the JSON parser itself may be 1 ulp off). Orientation-tampered documents are a recorded known finding pinned by existing tests.", ref="3 C13"),
  "C14": dict(level="exploration", technique="metamorphic and differential property-based testing: repeated / concurrent / child-process builds, input permutations, and comparison with the brute-force reference Delaunay triangulation in exact general position",
     text="Identical input and options must give identical fingerprints in-thread, across 8 threads and in a fresh process; order-insensitive strategies must be invariant under permutations of the input slice; in general position every certified construction path must yield the unique Delaunay triangulation.",
     note="Thread interleavings are not controlled (the construction path shares only one thread-local). Perturbed results are not compared with the reference.", ref="3 C14"),
  "C15": dict(level="exploration", technique="stateful property-based testing, differential against brute-force face enumeration of the stored cells",
     text="After every state-changing step of generated histories (insert, remove, flips, repair) every topology/adjacency query, indexed and non-indexed, for every live and several missing keys, plus simplex counts, Euler characteristic and classification, is compared with direct enumeration.",
     note="Only states valid at the configured guarantee (independent L1-L3) are compared.", ref="3 C15"),
  "C16": dict(level="exploration", technique="property-based testing of the toroidal builder with an exact-rational congruence oracle for wrapping, the C01 certification for the wrapped result and a lifted-face (vertex, lattice offset) enumeration for the periodic quotient",
     text="Generated period vectors and points far outside / exactly on the faces of the box (2^40 multiples, +-1e-300, +-ulp) must be stored inside [0,L), congruent to the input within one ulp, with UUID/data kept, idempotently; later insert() must wrap as well; periodic results must have no boundary, Euler characteristic 0 and every separated input once; invalid periods must be rejected.",
     note="Err is acceptable for any toroidal build; D=3 periodic excluded as the property says. Perturbation within the documented bound tolerated (but not leaving the box).", ref="3 C16"),
  "C17": dict(level="exploration", technique="exhaustive enumeration of small Hilbert grids + property-based testing of orderings and all dedup implementations against exact-rational validity oracles",
     text="Hilbert index checked for bijectivity and adjacency on every cell of grids up to 2^12 cells per dimension 1-5; orderings checked to be permutations and dedup outputs to be valid subsets on generated lists with ties, duplicates, signed zeros and extreme ranges.",
     note="Private batch helpers reached through verif-hooks re-exports. Epsilon comparisons at exactly eps are in band.", ref="3 C17"),
  "C18": dict(level="exploration", technique="property-based testing: generated simplices compared with exact rational Gram-determinant / Cramer reference values, plus metamorphic permutation / translation / scaling relations",
     text="Volume, facet measure, circumcentre, circumradius, inradius and quality ratios of generated D=1..5 simplices are compared with exact values (rel. 1e-9 after a conditioning filter); exactly degenerate simplices must be rejected.",
     note="Reference values are exact rationals rounded once. Translation invariance only asserted for exactly representable translations.", ref="3 C18"),
  "C19": dict(level="exploration", technique="stateful fuzz-style property-based testing under catch_unwind and a watchdog: adversarial histories (stale / forged / foreign handles, out-of-range indices, extreme and non-finite coordinates) plus the other properties' generators re-run with only the panic monitor",
     text="Every public call in generated adversarial histories must return (Ok or typed Err) in both build profiles; read APIs are poked with forged keys, locate with extreme queries and hints (bounded walk), hulls and adjacency indices of another triangulation are used; after a non-finite insertion attempt no vertex may be non-finite.",
     note="Termination via public work statistics plus a wall-clock watchdog (exit 2 = inconclusive); hook-based work counters were not built.", ref="3 C19"),
}
NOT_YET = {}
def main():
    props=[json.loads(l)["id"] for l in open("/verif/properties.jsonl")]
    hooks=subprocess.run(["git","-C","/repo","log","--format=%H %s","--grep=^verif-hooks"],capture_output=True,text=True).stdout.strip().splitlines()
    m={"version":1,
       "setup_cmd":"cd /verif/harness && CARGO_NET_OFFLINE=true cargo build --offline --profile release --bin dvcheck && CARGO_NET_OFFLINE=true cargo build --offline --profile relchk --bin dvcheck",
       "hooks":{"guard":"cargo feature `verif-hooks` of the delaunay crate","enable":"the harness crate depends on delaunay = { path = \"/repo\", features = [\"verif-hooks\"] }; /verif/run.sh rebuilds it from /repo's working tree in profiles release and relchk",
                "baseline_off_cmd":"cd /repo && cargo test --workspace --no-fail-fast --offline","source_commits":[h.split()[0] for h in hooks],"add_only":True},
       "engines":[{"name":"dvcheck","path":"/verif/harness","serves_properties":sorted(CHECKS),"kind_free_text":"Rust harness: proptest TestRunner (seeded from VERIF_SEED) + exhaustive enumerators + fault enumeration, exact big-integer geometric oracle, independent L1-L3 checker, subprocess shards in two build profiles"}],
       "checks":[], "not_applicable":[],
       "notes":"exit 0 = held on everything explored (KNOWN-FINDING lines possible), 1 = VIOLATION lines, 2 = inconclusive (build failure, watchdog, harness error). known findings: /verif/known_findings.json."}
    for p in props:
        if p in CHECKS:
            c=CHECKS[p]
            m["checks"].append({"property_id":p,"quick_cmd":f"./run.sh {p} quick","thorough_cmd":f"./run.sh {p} thorough","evidence_file":f"/verif/evidence/{p}.json",
               "replay_cmd_template":"/verif/harness/target/release/dvcheck replay {path} --strict","engine":"dvcheck",
               "level_claimed":{"category":c["level"],"text":c["text"],"design_ref":"DESIGN.md section "+c["ref"]},"level_note":c["note"],"technique":c["technique"]})
        else:
            m["not_applicable"].append({"property_id":p,"reason":NOT_YET.get(p,"check not built yet in this session (planned in DESIGN.md section 3); not claimed until its oracle is implemented and silent on the unchanged tree")})
    json.dump(m,open("/verif/MANIFEST.json","w"),indent=1)
    print("checks:",[c["property_id"] for c in m["checks"]])
main()
