#!/usr/bin/env python3
"""Regenerates MANIFEST.json from the table below (kept in one place so it stays valid)."""
import json, subprocess, sys
CHECKS = {
  "C12": dict(level="exploration", technique="property-based testing: exhaustive tiny-grid enumeration + proptest generation against an exact big-integer determinant oracle with an explicit tolerance/rounding band",
     text="Every predicate entry point (fast, robust x 4 configs, lifted, both kernels) is compared with the exact sign on every ordered tuple of the 3x3 grid and the unit cube and on generated D=2..5 tuples under vertex permutations; violations are shrunk by proptest. Sampling beyond the exhaustive grids: no absence claim.",
     note="Trusted: the harness' own BigInt/determinant code (unit- and identity-tested), the documented tolerance formula, the a-posteriori GEPP rounding bound (DESIGN 2.1).", ref="3 C12"),
}
NOT_YET = {}
def main():
    props=[json.loads(l)["id"] for l in open("/verif/properties.jsonl")]
    hooks=subprocess.run(["git","-C","/repo","log","--format=%H %s","--grep=^verif-hooks"],capture_output=True,text=True).stdout.strip().splitlines()
    m={"version":1,
       "setup_cmd":"cd /verif/harness && CARGO_NET_OFFLINE=true cargo build --offline --profile release --bin dvcheck && CARGO_NET_OFFLINE=true cargo build --offline --profile relchk --bin dvcheck",
       "hooks":{"guard":"cargo feature `verif-hooks` of the delaunay crate","enable":"the harness crate depends on delaunay = { path = \"/repo\", features = [\"verif-hooks\"] }; /verif/run.sh rebuilds it from /repo's working tree in profiles release and relchk",
                "baseline_off_cmd":"cd /repo && cargo test --workspace --no-fail-fast --offline","source_commits":[h.split()[0] for h in hooks],"add_only":True},
       "engines":[{"name":"dvcheck","path":"/verif/harness","serves_properties":sorted(CHECKS),"kind_free_text":"Rust harness: proptest TestRunner (seeded from VERIF_SEED) + exhaustive enumerators + fault enumeration, exact big-integer geometric oracle, independent L1-L3 checker, subprocess shards in two build profiles"}],
       "checks":[], "not_applicable":[],
       "notes":"exit 0 = held on everything explored (KNOWN-FINDING lines possible), 1 = VIOLATION lines, 2 = inconclusive (build failure, watchdog, harness error). known findings: /verif/known_findings.json."}
    for p in props:
        if p in CHECKS:
            c=CHECKS[p]
            m["checks"].append({"property_id":p,"quick_cmd":f"./run.sh {p} quick","thorough_cmd":f"./run.sh {p} thorough","evidence_file":f"/verif/evidence/{p}.json",
               "replay_cmd_template":"/verif/harness/target/release/dvcheck replay {path} --strict","engine":"dvcheck",
               "level_claimed":{"category":c["level"],"text":c["text"],"design_ref":"DESIGN.md section "+c["ref"]},"level_note":c["note"],"technique":c["technique"]})
        else:
            m["not_applicable"].append({"property_id":p,"reason":NOT_YET.get(p,"check not built yet in this session (planned in DESIGN.md section 3); not claimed until its oracle is implemented and silent on the unchanged tree")})
    json.dump(m,open("/verif/MANIFEST.json","w"),indent=1)
    print("checks:",[c["property_id"] for c in m["checks"]])
main()
