#!/usr/bin/env bash
# usage: tools/sweep_all.sh <tier> seed...   runs every registered check under each seed, prints one line per (check, seed)
TIER="$1"; shift
HERE="$(cd "$(dirname "$0")/.." && pwd)"; cd "$HERE"
CHECKS=$(python3 -c "import json;print(' '.join(c['property_id'] for c in json.load(open('MANIFEST.json'))['checks']))")
for s in "$@"; do for p in $CHECKS; do
  out=$(VERIF_SEED=$s ./run.sh $p $TIER 2>&1); code=$?
  echo "seed=$s $p exit=$code $(echo "$out" | grep -c '^VIOLATION') violations :: $(echo "$out" | tail -1 | cut -c1-160)"
  echo "$out" | grep "^  ->" | cut -c1-300
  mkdir -p sweep_out/all-$s; mv replays/$p/violation-*.json sweep_out/all-$s/ 2>/dev/null
done; done
